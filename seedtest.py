#!/usr/bin/env python3
"""Confirms a seeded change (patch + demonstration test) in a scratch worktree and
runs the /verif checks against it through a build overlay (so /repo is untouched).

usage: seedtest.py <dir-with change.diff+demo_test.go> [--checks C01,C02|all] [--tier quick] [--no-confirm]
Prints a JSON summary; exit 0 always (it is a measuring tool).

Steps: scratch worktree of /repo HEAD -> (1) demo passes without the change,
(2) apply the change: existing suite passes, (3) demo fails with the change,
(4) overlay build of cctpmc with the changed files, run the requested checks.
"""
import json, os, re, shutil, subprocess, sys, tempfile

VERIF = os.path.dirname(os.path.abspath(__file__))
REPO = "/repo"
ENVT = dict(os.environ, GOFLAGS="", GOPROXY="off", GOSUMDB="off", GOTOOLCHAIN="local")
ENVB = dict(os.environ, GOFLAGS="-mod=mod", GOPROXY="off", GOSUMDB="off", GOTOOLCHAIN="local")


def sh(cmd, cwd=None, env=None, timeout=3600):
    p = subprocess.run(cmd, cwd=cwd, env=env, capture_output=True, text=True, timeout=timeout)
    return p.returncode, p.stdout + p.stderr


def main():
    args = sys.argv[1:]
    d = os.path.abspath(args[0])
    patch = os.path.join(d, "patch.diff")
    checks = "all"
    tier = "quick"
    if "--checks" in args:
        checks = args[args.index("--checks") + 1]
    if "--tier" in args:
        tier = args[args.index("--tier") + 1]
    demos = [f for f in os.listdir(d) if f.endswith("_test.go")]
    res = {"dir": d}
    wt = tempfile.mkdtemp(prefix="seedwt-")
    os.rmdir(wt)
    rc, out = sh(["git", "-C", REPO, "worktree", "add", "-q", "--detach", wt, os.environ.get("SEEDTEST_BASE", "HEAD")])
    if rc != 0:
        print(out); sys.exit(2)
    try:
        # where does the demo go?  first line comment: "// copy to: x/cctp/keeper"
        demo_targets = []
        for f in demos:
            first = open(os.path.join(d, f)).readline()
            target = "x/cctp/keeper"
            for cand in sorted(re.findall(r"x/cctp(?:/\w+)*", first), key=len, reverse=True):
                while cand and not os.path.isdir(os.path.join(wt, cand)):
                    cand = os.path.dirname(cand)
                if cand:
                    target = cand
                    break
            demo_targets.append((f, target))
            shutil.copy(os.path.join(d, f), os.path.join(wt, target, f))
        pkgs = sorted({"./" + t + "/" for _, t in demo_targets})
        runpat = "."
        confirm = "--no-confirm" not in args  # rechecks of an already confirmed change skip steps 1-3
        # (1) demo without the change
        if demos and confirm:
            rc, out = sh(["go", "test", "-vet=off", "-count=1"] + pkgs, cwd=wt, env=ENVT)
            res["demo_passes_without_change"] = rc == 0
            if rc != 0:
                res["demo_without_log"] = out[-1500:]
        # (2) apply
        rc, out = sh(["git", "apply", "--whitespace=nowarn", patch], cwd=wt)
        if rc != 0:
            res["apply_failed"] = out[-800:]
            print(json.dumps(res, indent=1)); return
        for f, t in demo_targets:
            os.remove(os.path.join(wt, t, f))
        if confirm:
            rc, out = sh(["go", "test", "-vet=off", "-count=1", "./..."], cwd=wt, env=ENVT)
            res["existing_suite_passes_with_change"] = rc == 0
            if rc != 0:
                res["suite_log"] = out[-1500:]
        # (3) demo with the change
        if demos and confirm:
            for f, t in demo_targets:
                shutil.copy(os.path.join(d, f), os.path.join(wt, t, f))
            rc, out = sh(["go", "test", "-vet=off", "-count=1"] + pkgs, cwd=wt, env=ENVT)
            res["demo_fails_with_change"] = rc != 0
            for f, t in demo_targets:
                os.remove(os.path.join(wt, t, f))
        # (4) overlay
        rc, out = sh(["git", "status", "--porcelain"], cwd=wt)
        repl = {}
        tmp = tempfile.mkdtemp(prefix="seedov-")
        n = 0
        for line in out.splitlines():
            path = line[3:].strip()
            if not path.endswith(".go"):
                continue
            src = os.path.join(wt, path)
            dst = os.path.join(tmp, "f%d.go.txt" % n); n += 1
            if os.path.exists(src):
                shutil.copy(src, dst)
                repl[os.path.join(REPO, path)] = dst
            else:
                repl[os.path.join(REPO, path)] = ""
        ov = os.path.join(tmp, "overlay.json")
        json.dump({"Replace": repl}, open(ov, "w"))
        res["changed_files"] = [k.replace(REPO + "/", "") for k in repl]
        binp = os.path.join(tmp, "cctpmc")
        want_race = "C18" in os.path.basename(d) or checks == "C18"
        env = dict(ENVB, VERIF_BUILD_FLAGS="-overlay " + ov, VERIF_BIN=binp, VERIF_RACE="1" if want_race else "0", VERIF_SKIP_RACE="0" if want_race else "1")
        rc, out = sh([os.path.join(VERIF, "build.sh")], env=env)
        if rc != 0:
            res["overlay_build_failed"] = out[-1500:]
            print(json.dumps(res, indent=1)); return
        vdir = os.path.join(tmp, "verif"); os.makedirs(vdir)
        shutil.copy(os.path.join(VERIF, "known_findings.json"), vdir)
        ids = ["C%02d" % i for i in range(1, 21)] if checks == "all" else checks.split(",")
        res["checks"] = {}
        for pid in ids:
            rc, out = sh([binp, "check", pid, tier], env=dict(env, VERIF_DIR=vdir, VERIF_REPO=wt))
            fps = [l.strip()[13:] for l in out.splitlines() if l.strip().startswith("fingerprint:")]
            res["checks"][pid] = {"exit": rc, "fingerprints": fps[:4]}
            if rc == 2:
                res["checks"][pid]["log"] = out[-600:]
        res["detected_by"] = [p for p, v in res["checks"].items() if v["exit"] == 1]
        shutil.rmtree(tmp, ignore_errors=True)
    finally:
        sh(["git", "-C", REPO, "worktree", "remove", "--force", wt])
    print(json.dumps(res, indent=1))


if __name__ == "__main__":
    main()
