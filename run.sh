#!/bin/bash
# usage: run.sh <subcommand> [args]   e.g. run.sh check C13 quick
cd "$(dirname "$0")" || exit 2
export GOFLAGS=-mod=mod GOPROXY=off GOSUMDB=off GOTOOLCHAIN=local
case " $* " in *" C18 "*) export VERIF_RACE=1;; esac
./build.sh 1>&2 || { echo "BUILD-FAILED (harness or /repo does not compile)" >&2; exit 2; }
exec bin/cctpmc "$@"
