#!/usr/bin/env python3
"""Imports property-preserving changes written by sub-agents (/tmp/benign/<area>/changeN.diff)
into /verif/benign/<area>-N/ and runs ALL quick checks against each through the overlay build
(seedtest.py --no-confirm): every check must exit 0.  The existing suite is run too.
usage: benign_import.py <area> [...]"""
import json, os, re, shutil, subprocess, sys
V = os.path.dirname(os.path.abspath(__file__))
ROOT = os.environ.get("BENIGN_ROOT", "/tmp/benign")

def section(notes, n):
    m = re.search(r"(?is)(^#+[^\n]*change\s*%d.*?)(?=^#+[^\n]*change\s*%d|\Z)" % (n, n + 1), notes, re.M)
    return (m.group(1) if m else "")[:1800]

for area in sys.argv[1:]:
    src = os.path.join(ROOT, area)
    notes = open(os.path.join(src, "NOTES.md")).read() if os.path.exists(os.path.join(src, "NOTES.md")) else ""
    for n in range(1, 9):
        d = os.path.join(src, f"change{n}.diff")
        if not os.path.exists(d):
            continue
        dst = os.path.join(V, "benign", f"{area}-{n}")
        os.makedirs(dst, exist_ok=True)
        shutil.copy(d, os.path.join(dst, "patch.diff"))
        p = subprocess.run([sys.executable, os.path.join(V, "seedtest.py"), dst, "--checks", "all"], capture_output=True, text=True)
        try:
            res = json.loads(p.stdout)
        except Exception:
            res = {"error": (p.stdout + p.stderr)[-1500:]}
        checks = res.get("checks") or {}
        meta = {
            "id": f"{area}-{n}", "kind": "property-preserving change (false-alarm test)",
            "source": "independent sub-agent given the 20 property texts and a scratch worktree; asked for changes that keep every property true",
            "existing_suite_passes_with_change": res.get("existing_suite_passes_with_change"),
            "changed_files": res.get("changed_files"),
            "alarms": {k: v["fingerprints"] for k, v in checks.items() if v["exit"] == 1},
            "harness_errors": {k: v.get("log") for k, v in checks.items() if v["exit"] == 2},
            "checks_passed": sorted(k for k, v in checks.items() if v["exit"] == 0),
            "error": res.get("error") or res.get("apply_failed") or res.get("overlay_build_failed"),
            "agent_notes": section(notes, n),
        }
        json.dump(meta, open(os.path.join(dst, "meta.json"), "w"), indent=1)
        print(meta["id"], "suite", meta["existing_suite_passes_with_change"], "passed", len(meta["checks_passed"]), "ALARMS", list(meta["alarms"]), "EXIT2", list(meta["harness_errors"]), meta["error"] and meta["error"][-200:], flush=True)
