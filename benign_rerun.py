#!/usr/bin/env python3
"""Re-runs ALL quick checks against every kept property-preserving change (benign/<id>/patch.diff)
with the current machinery and rewrites the result fields of its meta.json.
usage: benign_rerun.py <shard> <shards> [--dest DIR] [--checks C05,C10]   (--checks: re-run only those and merge into the stored result)"""
import glob, json, os, subprocess, sys
V = os.path.dirname(os.path.abspath(__file__))
shard, shards = int(sys.argv[1]), int(sys.argv[2])
dest = sys.argv[sys.argv.index("--dest") + 1] if "--dest" in sys.argv else os.path.join(V, "benign")
only = sys.argv[sys.argv.index("--checks") + 1] if "--checks" in sys.argv else "all"
head = subprocess.run(["git", "-C", V, "rev-parse", "--short", "HEAD"], capture_output=True, text=True).stdout.strip()
for i, f in enumerate(sorted(glob.glob(os.path.join(V, "benign", "*", "meta.json")))):
    if i % shards != shard:
        continue
    m = json.load(open(f))
    p = subprocess.run([sys.executable, os.path.join(V, "seedtest.py"), os.path.dirname(f), "--checks", only, "--no-confirm"], capture_output=True, text=True)
    try:
        res = json.loads(p.stdout)
    except Exception:
        print(m["id"], "ERROR", (p.stdout + p.stderr)[-300:], flush=True)
        continue
    checks = res.get("checks") or {}
    keep = (lambda d: {k: v for k, v in (d or {}).items() if k not in checks}) if only != "all" else (lambda d: {})
    m["alarms"] = dict(keep(m.get("alarms")), **{k: v["fingerprints"] for k, v in checks.items() if v["exit"] == 1})
    m["harness_errors"] = dict(keep(m.get("harness_errors")), **{k: v.get("log") for k, v in checks.items() if v["exit"] == 2})
    m["checks_passed"] = sorted(set(k for k in (m.get("checks_passed") or []) if only != "all" and k not in checks) | set(k for k, v in checks.items() if v["exit"] == 0))
    m["checks_rerun_at_verif_commit"] = head
    m["error"] = res.get("apply_failed") or res.get("overlay_build_failed")
    out = os.path.join(dest, m["id"], "meta.json")
    os.makedirs(os.path.dirname(out), exist_ok=True)
    json.dump(m, open(out, "w"), indent=1)
    print(m["id"], "passed", len(m["checks_passed"]), "ALARMS", list(m["alarms"]), "EXIT2", list(m["harness_errors"]), m["error"] and m["error"][-200:], flush=True)
