#!/usr/bin/env python3
"""Mutation self-test: applies each deliberate property-breaking change from
mutants/mutants.json with `go build -overlay` (so /repo is never edited), runs
the matching check and requires a VIOLATION line.  Optionally (--tests) runs the
repository's own test suite against the same overlay to confirm it still passes.

usage: selftest.py [--tests] [--tier quick|thorough] [--jobs N] [name-substring ...]
Results are written to mutants/RESULTS.json.
"""
import json, os, subprocess, sys, tempfile, shutil, concurrent.futures, time

VERIF = os.path.dirname(os.path.abspath(__file__))
REPO = os.environ.get("VERIF_REPO", "/repo")
ENV = dict(os.environ, GOFLAGS="-mod=mod", GOPROXY="off", GOSUMDB="off", GOTOOLCHAIN="local")


def make_overlay(mut, tmp):
    repl = {}
    edits = mut.get("edits") or [{"file": mut["file"], "replace": mut["replace"]}]
    for n, e in enumerate(edits):
        src = os.path.join(REPO, e["file"])
        text = open(src).read()
        for old, new in e["replace"]:
            if text.count(old) < 1:
                raise SystemExit(f"mutant {mut['name']}: pattern not found in {e['file']}: {old!r}")
            cnt = e.get("count", 1)
            text = text.replace(old, new, cnt)
        dst = os.path.join(tmp, f"m{n}.go.txt")
        open(dst, "w").write(text)
        repl[src] = dst
    for n, a in enumerate(mut.get("add", [])):
        dst = os.path.join(tmp, f"a{n}.go.txt")
        open(dst, "w").write(a["content"])
        repl[os.path.join(REPO, a["file"])] = dst
    ov = os.path.join(tmp, "overlay.json")
    json.dump({"Replace": repl}, open(ov, "w"))
    return ov


def run_one(mut, tier, with_tests):
    tmp = tempfile.mkdtemp(prefix="cctpmut-")
    res = {"name": mut["name"], "property": mut["property"]}
    try:
        ov = make_overlay(mut, tmp)
        binp = os.path.join(tmp, "cctpmc")
        env = dict(ENV, VERIF_BUILD_FLAGS=f"-overlay {ov}", VERIF_BIN=binp)
        if "C18" in (mut["property"] if isinstance(mut["property"], list) else [mut["property"]]):
            env["VERIF_RACE"] = "1"
        b = subprocess.run([os.path.join(VERIF, "build.sh")], env=env, capture_output=True, text=True)
        if b.returncode != 0:
            res["status"] = "BUILD-FAILED"
            res["log"] = b.stderr[-2000:]
            return res
        vdir = os.path.join(tmp, "verif")
        os.makedirs(vdir)
        shutil.copy(os.path.join(VERIF, "known_findings.json"), vdir) if os.path.exists(os.path.join(VERIF, "known_findings.json")) else None
        t0 = time.time()
        props = mut["property"] if isinstance(mut["property"], list) else [mut["property"]]
        own = list(props)
        if ALL_CHECKS:
            props = ["C%02d" % i for i in range(1, 21)]
            if "C18" not in own:
                env["VERIF_SKIP_RACE"] = "1"
        detected = {}
        for pid in props:
            c = subprocess.run([binp, "check", pid, tier], env=dict(env, VERIF_DIR=vdir), capture_output=True, text=True)
            viol = [l for l in c.stdout.splitlines() if l.startswith("VIOLATION")]
            fps = [l.strip() for l in c.stdout.splitlines() if l.strip().startswith("fingerprint:")]
            detected[pid] = {"exit": c.returncode, "violations": len(viol), "fingerprints": fps[:5]}
            if c.returncode not in (0, 1):
                detected[pid]["stderr"] = c.stderr[-1500:]
        res["checks"] = detected
        res["check_s"] = round(time.time() - t0, 1)
        res["status"] = "DETECTED" if all(detected[p]["exit"] == 1 and detected[p]["violations"] > 0 for p in own) else "MISSED"
        if ALL_CHECKS:
            res["also_fired"] = sorted(p for p in detected if p not in own and detected[p]["exit"] == 1)
            res["harness_exit2"] = sorted(p for p in detected if detected[p]["exit"] == 2)
        if with_tests:
            t = subprocess.run(["go", "test", "-vet=off", "-count=1", "-overlay", ov, "./..."], cwd=REPO, env=dict(ENV, GOFLAGS=""), capture_output=True, text=True)
            res["repo_tests_pass"] = (t.returncode == 0)
            if t.returncode != 0:
                res["repo_tests_log"] = (t.stdout + t.stderr)[-1500:]
        return res
    finally:
        shutil.rmtree(tmp, ignore_errors=True)


ALL_CHECKS = False


def main():
    global ALL_CHECKS
    args = sys.argv[1:]
    if "--all-checks" in args:
        ALL_CHECKS = True
        args.remove("--all-checks")
    with_tests = "--tests" in args
    tier = "quick"
    jobs = 3
    filt = []
    i = 0
    while i < len(args):
        a = args[i]
        if a == "--tests":
            pass
        elif a == "--tier":
            i += 1; tier = args[i]
        elif a == "--jobs":
            i += 1; jobs = int(args[i])
        else:
            filt.append(a)
        i += 1
    ns = {}
    exec(open(os.path.join(VERIF, "mutants", "mutants.py")).read(), ns)
    muts = ns["MUTANTS"]
    if filt:
        muts = [m for m in muts if any(f in m["name"] or f == m["property"] for f in filt)]
    results = []
    with concurrent.futures.ThreadPoolExecutor(max_workers=jobs) as ex:
        for r in ex.map(lambda m: run_one(m, tier, with_tests), muts):
            print(f"{r['status']:12s} {r['name']:45s} {r['property']} tests_pass={r.get('repo_tests_pass','-')} {r.get('check_s','')}s also={r.get('also_fired','')} exit2={r.get('harness_exit2','')}", flush=True)
            if r["status"] not in ("DETECTED",):
                print("   ", json.dumps(r)[:1500])
            results.append(r)
    out = os.path.join(VERIF, "mutants", "MATRIX.json" if ALL_CHECKS else "RESULTS.json")
    old = {}
    if os.path.exists(out):
        try:
            old = {r["name"]: r for r in json.load(open(out))}
        except Exception:
            old = {}
    for r in results:
        if "repo_tests_pass" not in r and r["name"] in old and "repo_tests_pass" in old[r["name"]]:
            r["repo_tests_pass"] = old[r["name"]]["repo_tests_pass"]
        old[r["name"]] = r
    json.dump(sorted(old.values(), key=lambda r: r["name"]), open(out, "w"), indent=1)
    bad = [r for r in results if r["status"] != "DETECTED"]
    sys.exit(1 if bad else 0)


if __name__ == "__main__":
    main()
