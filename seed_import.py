#!/usr/bin/env python3
"""Imports the deliverables of a seeding sub-agent (/tmp/seeded/Cxx/changeN.diff,
demoN_test.go, NOTES.md) into /verif/seeded/Cxx-N/, confirms them with
seedtest.py (scratch worktree + overlay build; /repo is never edited) and writes
meta.json.  usage: seed_import.py C11 [C03 ...] [--checks all|own]
"""
import json, os, re, shutil, subprocess, sys

VERIF = os.path.dirname(os.path.abspath(__file__))


def main():
    args = [a for a in sys.argv[1:] if not a.startswith("--")]
    own_only = "--checks" in sys.argv and sys.argv[sys.argv.index("--checks") + 1] == "own"
    if "--checks" in sys.argv:
        args = [a for a in args if a not in ("own", "all")]
    props = {json.loads(l)["id"]: json.loads(l) for l in open(os.path.join(VERIF, "properties.jsonl"))}
    root = os.environ.get("SEED_ROOT", "/tmp/seeded")
    suffix = os.environ.get("SEED_SUFFIX", "")
    for pid in args:
        src = os.path.join(root, pid)
        notes = open(os.path.join(src, "NOTES.md")).read() if os.path.exists(os.path.join(src, "NOTES.md")) else ""
        for n in (1, 2, 3):
            diff = os.path.join(src, f"change{n}.diff")
            if not os.path.exists(diff):
                continue
            dst = os.path.join(VERIF, "seeded", f"{pid}{suffix}-{n}")
            os.makedirs(dst, exist_ok=True)
            shutil.copy(diff, os.path.join(dst, "patch.diff"))
            demo = os.path.join(src, f"demo{n}_test.go")
            for f in os.listdir(dst):
                if f.endswith("_test.go"):
                    os.remove(os.path.join(dst, f))
            if os.path.exists(demo):
                shutil.copy(demo, os.path.join(dst, f"zz_seeded_{pid}_{n}_test.go"))
            cmd = [sys.executable, os.path.join(VERIF, "seedtest.py"), dst]
            if own_only:
                cmd += ["--checks", pid]
            p = subprocess.run(cmd, capture_output=True, text=True)
            try:
                res = json.loads(p.stdout)
            except Exception:
                res = {"error": (p.stdout + p.stderr)[-2000:]}
            confirmed = bool(res.get("existing_suite_passes_with_change") and res.get("demo_fails_with_change") and res.get("demo_passes_without_change"))
            meta = {
                "id": f"{pid}{suffix}-{n}",
                "breaks_property": pid,
                "property_title": props[pid]["title"],
                "source": "independent sub-agent given only the property text and a scratch worktree",
                "confirmed_by_me": confirmed,
                "what_i_ran": "seedtest.py: scratch worktree of /repo HEAD; demo test passes without the change; `go test ./...` passes with the change; demo test fails with the change; "
                              "cctpmc built with `go build -overlay` of the changed files; quick checks run against it",
                "verification": {k: res.get(k) for k in ("demo_passes_without_change", "existing_suite_passes_with_change", "demo_fails_with_change", "changed_files", "apply_failed", "overlay_build_failed", "error")},
                "detected_by": res.get("detected_by"),
                "fingerprints": {k: v["fingerprints"] for k, v in (res.get("checks") or {}).items() if v["exit"] == 1},
                "harness_errors": {k: v.get("log") for k, v in (res.get("checks") or {}).items() if v["exit"] == 2},
                "needs_to_manifest": extract(notes, n),
            }
            json.dump(meta, open(os.path.join(dst, "meta.json"), "w"), indent=1)
            print(f"{pid}{suffix}-{n}: confirmed={confirmed} detected_by={meta['detected_by']} harness_errors={list(meta['harness_errors'])}", flush=True)


def extract(notes, n):
    # the agent's own description of change n (first ~1200 chars of its section)
    m = re.search(r"(?is)(^#+[^\n]*change\s*%d.*?)(?=^#+[^\n]*change\s*%d|\Z)" % (n, n + 1), notes, re.M)
    return (m.group(1) if m else notes)[:1500]


if __name__ == "__main__":
    main()
