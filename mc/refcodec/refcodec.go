// Package refcodec is an independent reference encoder/decoder for the CCTP
// message and burn-message wire formats, written from the layout stated in the
// property text (C16) with literal offsets. It imports nothing from x/cctp.
package refcodec

import (
	"errors"
	"math/big"
)

type Message struct {
	Version           uint32
	SourceDomain      uint32
	DestinationDomain uint32
	Nonce             uint64
	Sender            []byte // 32
	Recipient         []byte // 32
	DestinationCaller []byte // 32
	Body              []byte
}

type BurnMessage struct {
	Version       uint32
	BurnToken     []byte   // 32
	MintRecipient []byte   // 32
	Amount        *big.Int // [0, 2^256)
	MessageSender []byte   // 32
}

const HeaderLen = 116
const BurnLen = 132

func be32(b []byte) uint32 {
	return uint32(b[0])<<24 | uint32(b[1])<<16 | uint32(b[2])<<8 | uint32(b[3])
}

func be64(b []byte) uint64 {
	var v uint64
	for i := 0; i < 8; i++ {
		v = v<<8 | uint64(b[i])
	}
	return v
}

func put32(b []byte, v uint32) {
	b[0], b[1], b[2], b[3] = byte(v>>24), byte(v>>16), byte(v>>8), byte(v)
}

func put64(b []byte, v uint64) {
	for i := 7; i >= 0; i-- {
		b[i] = byte(v)
		v >>= 8
	}
}

func cp(b []byte) []byte { return append([]byte{}, b...) }

// DecodeMessage: 116-byte header then the body.
func DecodeMessage(b []byte) (*Message, error) {
	if len(b) < 116 {
		return nil, errors.New("message shorter than the 116-byte header")
	}
	return &Message{
		Version:           be32(b[0:4]),
		SourceDomain:      be32(b[4:8]),
		DestinationDomain: be32(b[8:12]),
		Nonce:             be64(b[12:20]),
		Sender:            cp(b[20:52]),
		Recipient:         cp(b[52:84]),
		DestinationCaller: cp(b[84:116]),
		Body:              cp(b[116:]),
	}, nil
}

func EncodeMessage(m *Message) ([]byte, error) {
	if len(m.Sender) != 32 || len(m.Recipient) != 32 || len(m.DestinationCaller) != 32 {
		return nil, errors.New("sender, recipient and destination caller must be 32 bytes")
	}
	out := make([]byte, 116+len(m.Body))
	put32(out[0:4], m.Version)
	put32(out[4:8], m.SourceDomain)
	put32(out[8:12], m.DestinationDomain)
	put64(out[12:20], m.Nonce)
	copy(out[20:52], m.Sender)
	copy(out[52:84], m.Recipient)
	copy(out[84:116], m.DestinationCaller)
	copy(out[116:], m.Body)
	return out, nil
}

// DecodeBurn: exactly 132 bytes.
func DecodeBurn(b []byte) (*BurnMessage, error) {
	if len(b) != 132 {
		return nil, errors.New("burn message must be exactly 132 bytes")
	}
	return &BurnMessage{
		Version:       be32(b[0:4]),
		BurnToken:     cp(b[4:36]),
		MintRecipient: cp(b[36:68]),
		Amount:        new(big.Int).SetBytes(b[68:100]),
		MessageSender: cp(b[100:132]),
	}, nil
}

func EncodeBurn(m *BurnMessage) ([]byte, error) {
	if len(m.BurnToken) != 32 || len(m.MintRecipient) != 32 || len(m.MessageSender) != 32 {
		return nil, errors.New("burn token, mint recipient and message sender must be 32 bytes")
	}
	if m.Amount == nil || m.Amount.Sign() < 0 || m.Amount.BitLen() > 256 {
		return nil, errors.New("amount out of [0, 2^256)")
	}
	out := make([]byte, 132)
	put32(out[0:4], m.Version)
	copy(out[4:36], m.BurnToken)
	copy(out[36:68], m.MintRecipient)
	ab := m.Amount.Bytes()
	copy(out[100-len(ab):100], ab)
	copy(out[100:132], m.MessageSender)
	return out, nil
}
