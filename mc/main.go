package main

import (
	"crypto/sha256"
	"encoding/hex"
	"encoding/json"
	"fmt"
	"os"
	"os/exec"
	"path/filepath"
	"runtime"
	"sort"
	"strconv"
	"strings"
	"sync"
	"time"
)

// ---------------------------------------------------------------------------
// Check registry

type Job struct {
	Name string
	Run  func(r *Run)
}

type Check struct {
	ID          string
	Level       string // evidence level
	Rule        string // how cases are enumerated / what is non-trivial
	Assumptions []string
	Jobs        func(tier string) []Job
	// Vacuity returns harness errors if the merged run is vacuous.
	Vacuity func(m *Run) []string
	// Finalize may post-process the merged run (e.g. add coverage census).
	Finalize func(m *Run)
}

var registry = map[string]*Check{}

func register(c *Check) { registry[c.ID] = c }

var verifDir = func() string {
	if d := os.Getenv("VERIF_DIR"); d != "" {
		return d
	}
	return "/verif"
}()

func main() {
	if len(os.Args) < 2 {
		usage()
	}
	switch os.Args[1] {
	case "check":
		if len(os.Args) < 4 {
			usage()
		}
		os.Exit(runCheck(os.Args[2], os.Args[3]))
	case "worker":
		os.Exit(runWorker(os.Args[2:]))
	case "replay":
		if len(os.Args) < 3 {
			usage()
		}
		os.Exit(runReplay(os.Args[2]))
	case "c18solo":
		os.Exit(C18Solo(os.Args[2]))
	case "racebodies":
		os.Exit(RaceBodies())
	case "list":
		for _, id := range sortedKeys(registry) {
			for _, t := range []string{"quick", "thorough"} {
				fmt.Printf("%s %s: %d jobs\n", id, t, len(registry[id].Jobs(t)))
			}
		}
	default:
		usage()
	}
}

func usage() {
	fmt.Fprintln(os.Stderr, "usage: cctpmc check <ID> <quick|thorough> | replay <file> | list")
	os.Exit(2)
}

func seedFromEnv() int64 {
	s, err := strconv.ParseInt(os.Getenv("VERIF_SEED"), 10, 64)
	if err != nil {
		return 0
	}
	return s
}

func tierDeadline(tier string) time.Duration {
	if d := os.Getenv("VERIF_DEADLINE_S"); d != "" {
		if n, err := strconv.Atoi(d); err == nil {
			return time.Duration(n) * time.Second
		}
	}
	if tier == "thorough" {
		return 40 * time.Minute
	}
	return 150 * time.Second
}

// preambleFailed aborts a job whose start configuration cannot be reached.
type preambleFailed struct{ msg string }

// ---------------------------------------------------------------------------
// Worker

func runWorker(args []string) int {
	// worker <ID> <tier> <shard> <nshards> <seed> <outfile>
	if len(args) < 6 {
		return 2
	}
	id, tier := args[0], args[1]
	shard, _ := strconv.Atoi(args[2])
	n, _ := strconv.Atoi(args[3])
	seed, _ := strconv.ParseInt(args[4], 10, 64)
	out := args[5]
	c := registry[id]
	if c == nil {
		fmt.Fprintln(os.Stderr, "unknown check", id)
		return 2
	}
	runtime.GOMAXPROCS(1)
	r := NewRun(id, tier, seed, shard, n, time.Now().Add(tierDeadline(tier)))
	jobs := c.Jobs(tier)
	only := os.Getenv("VERIF_ONLY_JOB")
	for i, j := range jobs {
		if int((int64(i)+seed)%int64(n)) != shard {
			continue
		}
		if only != "" && !strings.Contains(j.Name, only) {
			continue
		}
		if r.Expired() {
			r.Truncate("deadline before job " + j.Name)
			continue
		}
		r.Job = j.Name
		func() {
			defer func() {
				if p := recover(); p != nil {
					if pf, ok := p.(preambleFailed); ok {
						// the start configuration of this job cannot be built by transactions on this tree:
						// nothing can be judged from it (and nothing must be blamed on it)
						r.Truncate("job " + j.Name + ": start configuration unreachable on this tree (" + pf.msg + ")")
						r.addExtra("unreachable_start_configurations", 1)
						return
					}
					buf := make([]byte, 8192)
					buf = buf[:runtime.Stack(buf, false)]
					r.HarnessError("panic in harness job: %v\n%s", p, buf)
				}
			}()
			j.Run(r)
		}()
		r.JobsRun = append(r.JobsRun, j.Name)
	}
	type wire struct {
		*Run
		Distinct []string `json:"distinct"`
	}
	if err := writeJSON(out, wire{r, sortedKeys(r.DistinctKeys)}); err != nil {
		fmt.Fprintln(os.Stderr, err)
		return 2
	}
	return 0
}

// ---------------------------------------------------------------------------
// Known findings

type KnownFinding struct {
	Status      string `json:"status"` // "known" | "fixed"
	Property    string `json:"property"`
	Fingerprint string `json:"fingerprint"`
	What        string `json:"what"`
	Commit      string `json:"commit,omitempty"`
}

func loadKnown() []KnownFinding {
	var out struct {
		Findings []KnownFinding `json:"findings"`
	}
	bz, err := os.ReadFile(filepath.Join(verifDir, "known_findings.json"))
	if err != nil {
		return nil
	}
	if err := json.Unmarshal(bz, &out); err != nil {
		fmt.Fprintln(os.Stderr, "known_findings.json:", err)
		return nil
	}
	return out.Findings
}

var knownCache []KnownFinding
var knownLoaded bool

func isKnownFingerprint(prop, fp string) bool {
	if !knownLoaded {
		knownCache, knownLoaded = loadKnown(), true
	}
	for _, k := range knownCache {
		if k.Status == "known" && k.Property == prop && k.Fingerprint == fp {
			return true
		}
	}
	return false
}

// ---------------------------------------------------------------------------
// Parent

func runCheck(id, tier string) int {
	c := registry[id]
	if c == nil {
		fmt.Fprintln(os.Stderr, "unknown check", id)
		return 2
	}
	if tier != "quick" && tier != "thorough" {
		usage()
	}
	start := time.Now()
	seed := seedFromEnv()
	jobs := c.Jobs(tier)
	nw := 16
	if v := os.Getenv("VERIF_WORKERS"); v != "" {
		if n, err := strconv.Atoi(v); err == nil && n > 0 {
			nw = n
		}
	}
	if len(jobs) < nw {
		nw = len(jobs)
	}
	if nw == 0 {
		fmt.Fprintln(os.Stderr, "no jobs")
		return 2
	}
	exe, _ := os.Executable()
	tmpdir, err := os.MkdirTemp("", "cctpmc-"+id+"-")
	if err != nil {
		fmt.Fprintln(os.Stderr, err)
		return 2
	}
	defer os.RemoveAll(tmpdir)
	var wg sync.WaitGroup
	errs := make([]error, nw)
	outs := make([]string, nw)
	for i := 0; i < nw; i++ {
		outs[i] = filepath.Join(tmpdir, fmt.Sprintf("w%d.json", i))
		wg.Add(1)
		go func(i int) {
			defer wg.Done()
			cmd := exec.Command(exe, "worker", id, tier, strconv.Itoa(i), strconv.Itoa(nw), strconv.FormatInt(seed, 10), outs[i])
			cmd.Stderr = os.Stderr
			cmd.Stdout = os.Stderr
			errs[i] = cmd.Run()
		}(i)
	}
	wg.Wait()

	m := NewRun(id, tier, seed, 0, nw, time.Now())
	harnessFail := false
	for i := 0; i < nw; i++ {
		if errs[i] != nil {
			fmt.Fprintf(os.Stderr, "HARNESS-ERROR worker %d: %v\n", i, errs[i])
			harnessFail = true
			continue
		}
		bz, err := os.ReadFile(outs[i])
		if err != nil {
			fmt.Fprintf(os.Stderr, "HARNESS-ERROR worker %d: %v\n", i, err)
			harnessFail = true
			continue
		}
		var wr struct {
			Run
			Distinct []string `json:"distinct"`
		}
		if err := json.Unmarshal(bz, &wr); err != nil {
			fmt.Fprintf(os.Stderr, "HARNESS-ERROR worker %d: %v\n", i, err)
			harnessFail = true
			continue
		}
		m.States += wr.States
		m.Transitions += wr.Transitions
		m.Evaluations += wr.Evaluations
		m.PathsReplayed += wr.PathsReplayed
		for k, v := range wr.Classes {
			m.Classes[k] += v
		}
		for _, k := range wr.Distinct {
			m.DistinctKeys[k] = struct{}{}
		}
		if len(m.Samples) < 12 {
			m.Samples = append(m.Samples, wr.Samples...)
		}
		m.Violations = append(m.Violations, wr.Violations...)
		m.Truncated = append(m.Truncated, wr.Truncated...)
		m.Notes = append(m.Notes, wr.Notes...)
		m.JobsRun = append(m.JobsRun, wr.JobsRun...)
		m.HarnessErrors = append(m.HarnessErrors, wr.HarnessErrors...)
		for k, v := range wr.Bounds {
			old, have := m.Bounds[k]
			of, ok1 := old.(float64)
			nf, ok2 := v.(float64)
			switch {
			case have && ok1 && ok2 && strings.HasPrefix(k, "max_"):
				if nf > of {
					m.Bounds[k] = nf
				}
			case have && ok1 && ok2 && strings.HasPrefix(k, "min_"):
				if nf < of {
					m.Bounds[k] = nf
				}
			default:
				m.Bounds[k] = v
			}
		}
		for k, v := range wr.Extra {
			mergeExtra(m.Extra, k, v)
		}
	}
	if len(m.Samples) > 12 {
		m.Samples = m.Samples[:12]
	}
	sort.Strings(m.JobsRun)
	if c.Finalize != nil {
		c.Finalize(m)
	}
	if c.Vacuity != nil && len(m.Truncated) == 0 && !harnessFail {
		m.HarnessErrors = append(m.HarnessErrors, c.Vacuity(m)...)
	}

	// classify violations against the committed known-findings file
	known := loadKnown()
	knownPrinted := map[string]bool{}
	reported := map[string]bool{}
	newViol := 0
	sort.SliceStable(m.Violations, func(i, j int) bool { return m.Violations[i].Fingerprint < m.Violations[j].Fingerprint })
	for _, v := range m.Violations {
		isKnown := false
		for _, k := range known {
			if k.Status == "known" && k.Property == id && k.Fingerprint == v.Fingerprint {
				isKnown = true
				if !knownPrinted[k.Fingerprint] {
					knownPrinted[k.Fingerprint] = true
					fmt.Printf("KNOWN-FINDING: property=%s %s [%s]\n", id, k.What, k.Fingerprint)
				}
			}
		}
		if isKnown || reported[v.Fingerprint] {
			continue
		}
		reported[v.Fingerprint] = true
		if why := replayNondeterministic(&v.Replay); why != "" {
			// the same action list must behave identically every time before a failure is believed
			fmt.Fprintf(os.Stderr, "HARNESS-ERROR replay of %q is not deterministic: %s\n", v.Fingerprint, why)
			harnessFail = true
			continue
		}
		newViol++
		h := sha256.Sum256([]byte(v.Fingerprint))
		path := filepath.Join(verifDir, "replays", fmt.Sprintf("%s-%s.json", id, hex.EncodeToString(h[:6])))
		if err := writeJSON(path, v.Replay); err != nil {
			fmt.Fprintln(os.Stderr, "cannot write replay:", err)
		}
		fmt.Printf("VIOLATION property=%s replay=%s\n", id, path)
		fmt.Printf("  fingerprint: %s\n  detail: %s\n", v.Fingerprint, firstLines(v.Detail, 12))
	}

	wall := time.Since(start).Seconds()
	exhaustive := len(m.Truncated) == 0 && !harnessFail && len(m.HarnessErrors) == 0
	cov := map[string]any{
		"states":                        max(m.States, 1),
		"transitions":                   max(m.Transitions, 1),
		"traces_validated_against_impl": m.Transitions + m.PathsReplayed,
		"evaluations":                   max(m.Evaluations+m.Transitions, 1),
		"distinct_nontrivial":           len(m.DistinctKeys),
		"rule":                          c.Rule,
		"samples":                       m.Samples,
		"exhaustive":                    exhaustive,
		"outcome_classes":               m.Classes,
		"paths_replayed_from_genesis":   m.PathsReplayed,
		"bounds":                        m.Bounds,
		"jobs":                          len(m.JobsRun),
		"workers":                       nw,
		"truncated":                     m.Truncated,
		"notes":                         m.Notes,
		"known_findings_reported":       sortedKeys(knownPrinted),
		"explanation": "every transition is one real handler call on real keepers inside the baseapp branch/commit discipline; " +
			"traces_validated_against_impl = transitions executed on the implementation + full histories replayed from genesis on IAVL",
	}
	for k, v := range m.Extra {
		cov[k] = v
	}
	if len(m.Samples) == 0 {
		cov["samples"] = []any{"(no samples recorded)"}
	}
	ev := map[string]any{
		"property_id": id,
		"tier":        tier,
		"seed":        seed,
		"level":       c.Level,
		"coverage":    cov,
		"assumptions": c.Assumptions,
		"wall_s":      wall,
		"violations":  newViol,
	}
	if err := writeJSON(filepath.Join(verifDir, "evidence", id+".json"), ev); err != nil {
		fmt.Fprintln(os.Stderr, "cannot write evidence:", err)
		return 2
	}
	fmt.Printf("%s %s: states=%d transitions=%d evaluations=%d distinct=%d classes=%v exhaustive=%v wall=%.1fs violations=%d known=%d\n",
		id, tier, m.States, m.Transitions, m.Evaluations, len(m.DistinctKeys), m.Classes, exhaustive, wall, newViol, len(knownPrinted))
	for _, t := range m.Truncated {
		fmt.Println("  truncated:", t)
	}
	if newViol > 0 {
		return 1
	}
	if harnessFail || len(m.HarnessErrors) > 0 {
		for _, e := range m.HarnessErrors {
			fmt.Fprintln(os.Stderr, "HARNESS-ERROR", firstLines(e, 30))
		}
		return 2
	}
	return 0
}

// replayNondeterministic re-executes an action-list replay three times on fresh
// worlds and compares outcomes and final state; "" means identical.
func replayNondeterministic(rp *Replay) string {
	if rp.Kind != "actions" || len(rp.Genesis) == 0 {
		return ""
	}
	var first string
	for i := 0; i < 3; i++ {
		var sb strings.Builder
		func() {
			defer func() {
				if p := recover(); p != nil {
					fmt.Fprintf(&sb, "harness panic %v", p)
				}
			}()
			w, err := rp.World(KindDB)
			if err != nil {
				fmt.Fprintf(&sb, "world: %v", err)
				return
			}
			for _, a := range rp.Actions {
				o := w.Apply(a)
				fmt.Fprintf(&sb, "%s|%s|%s;", o.Class(), o.Err, o.PanicVal)
			}
			sb.WriteString(HashBytes(w.Dump()))
		}()
		if i == 0 {
			first = sb.String()
		} else if sb.String() != first {
			return fmt.Sprintf("run 1: %.300s / run %d: %.300s", first, i+1, sb.String())
		}
	}
	return ""
}

func mergeExtra(dst map[string]any, k string, v any) {
	old, ok := dst[k]
	if !ok {
		dst[k] = v
		return
	}
	switch o := old.(type) {
	case float64:
		if n, ok := v.(float64); ok {
			dst[k] = o + n
		}
	case []any:
		if n, ok := v.([]any); ok {
			dst[k] = append(o, n...)
		}
	case map[string]any:
		if n, ok := v.(map[string]any); ok {
			for kk, vv := range n {
				mergeExtra(o, kk, vv)
			}
		}
	}
}

func firstLines(s string, n int) string {
	ls := strings.Split(s, "\n")
	if len(ls) > n {
		ls = append(ls[:n], "...")
	}
	return strings.Join(ls, "\n    ")
}
