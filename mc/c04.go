package main

// C04 -- every accepted burn message mints exactly what it says, once.
// (a) product over amounts x recipients x tokens x stored-denom spellings,
// judging the recorded Mint request, the ledger and the events;
// (b) BFS interleaving receives with every other transaction type, with the
// conservation invariant in every state.

import (
	"bytes"
	"fmt"
	"math/big"
	"strings"

	"cosmossdk.io/math"
	sdk "github.com/cosmos/cosmos-sdk/types"

	cctptypes "github.com/circlefin/noble-cctp/x/cctp/types"

	"cctpmc/refcodec"
)

func init() {
	register(&Check{
		ID:    "C04",
		Level: "model_checking",
		Rule: "product: amounts {0 (which the token factory refuses to mint),1,2,2^64-1,2^64,2^64+1,2^128,2^255,2^256-1 on a fresh supply} x 5 mint recipients (32 distinct bytes, leading-zero address, non-zero high bytes) x 2 (domain, burn token) x local denom stored as uusdc / uUSDC / a denom the factory does not mint x caller zero/submitter, " +
			"each judged on the recorded Mint request, bank balances/supply and both events; BFS (depth 4 quick / 6 thorough, sharded by first action) over 3 burn receives, plain and failing receives and one transaction of every other type " +
			"with 'supply minted == sum over distinct accepted burn messages' in every state; distinct_nontrivial = distinct (case) in the product + distinct (minted-set, transaction kind, outcome) in the BFS",
		Assumptions: []string{"histories whose cumulative mint would overflow the bank's 256-bit supply are outside the alphabet"},
		Jobs:        c04Jobs,
		Vacuity: func(m *Run) []string {
			if m.Classes["ok"] == 0 || m.Classes["error"] == 0 || m.Classes["mint-checked"] == 0 {
				return []string{fmt.Sprintf("C04 vacuous: %v", m.Classes)}
			}
			return nil
		},
	})
}

const c04Shards = 16

func c04Jobs(tier string) []Job {
	var jobs []Job
	for _, local := range []string{"uusdc", "uUSDC", "ueurc"} {
		for _, src := range []uint32{DomEth, DomAvax} {
			local, src := local, src
			jobs = append(jobs, Job{Name: fmt.Sprintf("mint-product local=%s src=%d", local, src), Run: func(r *Run) { c04Product(r, local, src) }})
		}
	}
	depth := 4
	if tier == "thorough" {
		depth = 6
	}
	for sh := 0; sh < c04Shards; sh++ {
		sh := sh
		jobs = append(jobs, Job{Name: fmt.Sprintf("mint-bfs-shard%d", sh), Run: func(r *Run) { c04BFS(r, depth, sh) }})
	}
	return jobs
}

func c04Scenario(local string, fresh bool) Scenario {
	g := BaseGenesis()
	g.TokenPairList = []cctptypes.TokenPair{
		{RemoteDomain: DomEth, RemoteToken: RemoteToken0, LocalToken: local},
		{RemoteDomain: DomAvax, RemoteToken: RemoteToken1, LocalToken: local},
	}
	lg := BaseLedger()
	lg.Allowance = max256.String()
	if fresh {
		lg.Balances = map[string]string{}
	}
	return Scenario{Name: "c04", Ledger: lg, Genesis: g}
}

func c04Product(r *Run, local string, src uint32) {
	signers := Keys[0:2]
	m1 := func(n uint) *big.Int { return new(big.Int).Sub(bigPow2(n), big.NewInt(1)) }
	amounts := []*big.Int{big.NewInt(0), big.NewInt(1), big.NewInt(2), m1(64), bigPow2(64), new(big.Int).Add(bigPow2(64), big.NewInt(1)), bigPow2(128), bigPow2(255)}
	recips := [][]byte{distinct32(0x10), distinct32(0x83), pad32(UserA.Addr),
		pad32(append([]byte{0, 0}, bytes.Repeat([]byte{0x5A}, 18)...)), // 20-byte address that itself starts with zero bytes
		append(bytes.Repeat([]byte{0xEE}, 12), UserB.Addr...)}          // non-zero high 12 bytes
	// a recipient whose high 12 bytes are non-zero and differ: [0:20] != [12:32]
	for _, fresh := range []bool{false, true} {
		scn := c04Scenario(local, fresh)
		w := scn.Build(KindDB)
		base := w.Dump()
		view := ViewOf(w)
		r.States++
		ams := amounts
		if fresh {
			ams = []*big.Int{max256, m1(255)}
		}
		nonce := uint64(40)
		for _, amt := range ams {
			for ri, rc := range recips {
				for ci, caller := range [][]byte{nil, pad32(UserB.Addr)} {
					nonce++
					msg := InboundBurn(src, nonce, amt, rc, caller)
					desc := fmt.Sprintf("burn(src=%d,nonce=%d,amount=%s,recipient#%d,caller#%d) local=%s fresh=%v", src, nonce, amt, ri, ci, local, fresh)
					a := MkReceive(UserB.Str, msg, Attest(msg, signers), desc)
					w.Load(base)
					p := Predict(w, view, a)
					to := sdk.AccAddress(rc[12:32])
					alt := sdk.AccAddress(rc[0:20])
					denom := strings.ToLower(local)
					balBefore, altBefore, supBefore := w.Balance(to, denom), w.Balance(alt, denom), w.Supply(denom)
					o := w.Apply(a)
					r.Transitions++
					r.Class(o.Class())
					r.Distinct(desc)
					rp := func(exp, obs string) Replay {
						x := scn.Replay("actions", []Action{a})
						x.Expected, x.Observed = exp, obs
						return x
					}
					if o.Panicked {
						r.Violate("C04 panic in receive", desc+": "+o.PanicVal, rp("", ""))
						continue
					}
					if !o.OK {
						if p.Exp == MustSucceed && local != denom {
							// differential: the same message under the lower-case spelling of the linked denom
							ctl := c04Scenario(denom, fresh).Build(KindDB)
							if co := ctl.Apply(a); co.OK {
								r.Violate("C04 burn message not minted when the linked denom is stored with upper-case letters",
									fmt.Sprintf("%s: rejected (%s) although the identical message mints when the pair is linked to %q", desc, o.Err, denom), rp("one mint of "+amt.String()+denom, o.Err))
							}
						} else if p.Exp == MustSucceed {
							r.Truncate("C04: a well-formed burn message was rejected (" + desc + "); acceptance is C03's subject, nothing to judge here")
						}
						continue
					}
					r.Class("mint-checked")
					want := DepCall{Kind: "mint", From: ModuleAcct.Str, To: to.String(), Denom: denom, Amount: amt.String()}
					if !depsEqual(o.Deps, []DepCall{want}) || o.Deps[0].Err != "" {
						r.Violate("C04 mint request differs from the burn message", fmt.Sprintf("%s: requested %s, expected %s", desc, depsStr(o.Deps), depsStr([]DepCall{want})),
							rp(depsStr([]DepCall{want}), depsStr(o.Deps)))
						continue
					}
					balAfter, altAfter, supAfter := w.Balance(to, denom), w.Balance(alt, denom), w.Supply(denom)
					if !balAfter.Sub(balBefore).Equal(math.NewIntFromBigInt(amt)) || !supAfter.Sub(supBefore).Equal(math.NewIntFromBigInt(amt)) || (!bytes.Equal(alt, to) && !altAfter.Equal(altBefore)) {
						r.Violate("C04 ledger effect differs from the burn message",
							fmt.Sprintf("%s: recipient %s->%s, supply %s->%s, account of bytes[0:20] %s->%s", desc, balBefore, balAfter, supBefore, supAfter, altBefore, altAfter), rp("", ""))
					}
					c04Events(r, desc, o, UserB.Str, msg, denom, rp)
					if ri == 0 && ci == 0 && len(r.Samples) < 3 {
						r.Sample("mint", map[string]any{"case": desc, "mint_request": depsStr(o.Deps)})
					}
				}
			}
		}
	}
}

// c04Events: MintAndWithdraw and MessageReceived must carry the reference-decoded values.
func c04Events(r *Run, desc string, o Outcome, from string, msg []byte, denom string, rp func(string, string) Replay) {
	dm, _ := refcodec.DecodeMessage(msg)
	db, _ := refcodec.DecodeBurn(dm.Body)
	var mw *cctptypes.MintAndWithdraw
	var mr *cctptypes.MessageReceived
	nmw, nmr := 0, 0
	for _, e := range TypedEvents(o.Events) {
		switch x := e.(type) {
		case *cctptypes.MintAndWithdraw:
			mw = x
			nmw++
		case *cctptypes.MessageReceived:
			mr = x
			nmr++
		}
	}
	if nmw != 1 || nmr != 1 {
		r.Violate("C04 accepted burn message must emit exactly one MintAndWithdraw and one MessageReceived", fmt.Sprintf("%s: %d / %d", desc, nmw, nmr), rp("1/1", fmt.Sprintf("%d/%d", nmw, nmr)))
		return
	}
	if !bytes.Equal(mw.MintRecipient, db.MintRecipient) || mw.Amount.IsNil() || mw.Amount.BigInt().Cmp(db.Amount) != 0 || mw.MintToken != denom {
		r.Violate("C04 MintAndWithdraw event differs from the burn message", fmt.Sprintf("%s: event %v", desc, mw), rp(fmt.Sprintf("recipient=%x amount=%s token=%s", db.MintRecipient, db.Amount, denom), mw.String()))
	}
	if mr.Caller != from || mr.SourceDomain != dm.SourceDomain || mr.Nonce != dm.Nonce || !bytes.Equal(mr.Sender, dm.Sender) || !bytes.Equal(mr.MessageBody, dm.Body) {
		r.Violate("C04 MessageReceived event differs from the message", fmt.Sprintf("%s: event %v", desc, mr),
			rp(fmt.Sprintf("caller=%s src=%d nonce=%d sender=%x", from, dm.SourceDomain, dm.Nonce, dm.Sender), mr.String()))
	}
}

type c04Model struct {
	Minted map[string]string // nonce key -> amount of accepted burn messages
	Burned *big.Int          // destroyed by deposits (so supply can be reconciled)
}

func (m c04Model) key() string { return mapStr(m.Minted) + "|" + m.Burned.String() }

func c04BFS(r *Run, depth, shard int) {
	scn := c04Scenario("uusdc", false)
	signers := Keys[0:2]
	b1 := InboundBurn(DomEth, 1, big.NewInt(100), pad32(Outsider.Addr), nil)
	b2 := InboundBurn(DomEth, 2, bigPow2(64), distinct32(0x10), pad32(UserB.Addr))
	b3 := InboundBurn(DomAvax, 1, big.NewInt(7), pad32(UserB.Addr), nil)
	b1other := InboundBurn(DomEth, 1, big.NewInt(555), pad32(UserA.Addr), nil) // same pair as b1, different body
	pl := InboundPlain(DomEth, 3, []byte("plain"), nil)
	var menu []Action
	menu = append(menu,
		MkReceive(UserB.Str, b1, Attest(b1, signers), "burn(0,1,100)"),
		MkReceive(UserB.Str, b2, Attest(b2, signers), "burn(0,2,2^64) caller=B"),
		MkReceive(UserA.Str, b3, Attest(b3, signers), "burn(1,1,7)"),
		MkReceive(UserA.Str, b1other, Attest(b1other, signers), "burn(0,1,555) same pair, other body"),
		MkReceive(UserA.Str, pl, Attest(pl, signers), "plain(0,3)"),
		MkReceive(UserA.Str, b3, Attest(b3, Keys[3:5]), "burn(1,1,7) bad attestation"),
		// re-registers the messenger that the catalogue's removeRemoteTokenMessenger(1) takes away: a burn
		// message minted before the removal must still not mint a second time afterwards
		Act("addRemoteTokenMessenger(1) by A0", &cctptypes.MsgAddRemoteTokenMessenger{From: Owner.Str, DomainId: DomAvax, Address: RemoteMessenger1}),
		MkSend(UserA.Str, DomEth, distinct32(0x21), []byte("a")),
		MkSendWithCaller(UserA.Str, DomEth, distinct32(0x21), []byte("a"), distinct32(0x22)),
		MkDeposit(UserA.Str, math.NewInt(9), DomEth, distinct32(0x24), "uusdc"),
		MkDepositWithCaller(UserA.Str, math.NewInt(4), DomAvax, distinct32(0x24), "uusdc", distinct32(0x25)),
	)
	holders := map[Role]string{RoleOwner: Owner.Str, RoleAttMgr: AttMgr.Str, RolePauser: Pauser.Str, RoleTokenCtl: TokenCtl.Str, RolePending: Outsider.Str}
	for _, tx := range AdminTxs {
		menu = append(menu, tx.Make(holders[tx.Role]))
	}
	genesisSupply := math.ZeroInt()

	bfs := &BFS{
		SeqDepth: 2,
		Scn:      scn, MaxDepth: depth, ValidatePaths: shard == 0, RootShard: shard, RootShards: c04Shards,
		Init: func(r *Run, w *World, root *Node) {
			m := c04Model{Minted: map[string]string{}, Burned: big.NewInt(0)}
			root.Model, root.MKey = m, m.key()
			genesisSupply = w.Supply("uusdc")
		},
		Actions: func(n *Node, w *World) []Action {
			as := menu
			if u := envGet(n.Env, "u"); u != nil {
				as = append(append([]Action{}, menu...), MkReplaceMessage(UserA.Str, u, Attest(u, signers), []byte("r"), distinct32(0x23), "first user message"))
			}
			if d := envGet(n.Env, "d"); d != nil {
				as = append(append([]Action{}, as...), MkReplaceDeposit(UserA.Str, d, Attest(d, signers), distinct32(0x26), distinct32(0x27), "first deposit"))
			}
			return as
		},
		Step: func(r *Run, pre *Node, a Action, o Outcome, w *World, post *Node) bool {
			m := pre.Model.(c04Model)
			kind := handlerName(a.Type)
			rp := func(exp, obs string) Replay {
				x := scn.Replay("actions", post.Path)
				x.Expected, x.Observed = exp, obs
				return x
			}
			if o.Panicked {
				r.Violate("C04 panic "+kind, a.Desc+": "+o.PanicVal, rp("", ""))
				return false
			}
			next := c04Model{Minted: map[string]string{}, Burned: new(big.Int).Set(m.Burned)}
			for k, v := range m.Minted {
				next.Minted[k] = v
			}
			var committedMints []DepCall
			if o.OK {
				for _, d := range o.Deps {
					if d.Kind == "mint" && d.Err == "" {
						committedMints = append(committedMints, d)
					}
					if d.Kind == "burn" && d.Err == "" {
						amt, _ := new(big.Int).SetString(d.Amount, 10)
						next.Burned.Add(next.Burned, amt)
					}
				}
			}
			r.Distinct(fmt.Sprintf("%s|%s|%s", mapStr(m.Minted), kind, o.Class()))
			isBurnReceive := false
			if rm, ok := mustDecode(a).(*cctptypes.MsgReceiveMessage); ok && o.OK {
				if dm, err := refcodec.DecodeMessage(rm.Message); err == nil && bytes.Equal(dm.Recipient, PaddedModule) {
					if db, err := refcodec.DecodeBurn(dm.Body); err == nil {
						isBurnReceive = true
						k := nonceKey(dm.SourceDomain, dm.Nonce)
						if _, dup := m.Minted[k]; dup {
							r.Violate("C04 a burn message for an already minted (domain, nonce) minted again", fmt.Sprintf("%s after %v", a.Desc, descs(pre.Path)), rp("rejected", "ok"))
						}
						next.Minted[k] = db.Amount.String()
						want := DepCall{Kind: "mint", From: ModuleAcct.Str, To: bech32Of(db.MintRecipient[12:]), Denom: "uusdc", Amount: db.Amount.String()}
						if !depsEqual(committedMints, []DepCall{want}) {
							r.Violate("C04 mint request differs from the burn message", fmt.Sprintf("%s: requested %s, expected %s", a.Desc, depsStr(o.Deps), depsStr([]DepCall{want})),
								rp(depsStr([]DepCall{want}), depsStr(o.Deps)))
						}
						r.Class("mint-checked")
					}
				}
			}
			if !isBurnReceive && len(committedMints) > 0 {
				r.Violate("C04 mint caused by something other than an accepted burn message: "+kind, fmt.Sprintf("%s: %s", a.Desc, depsStr(o.Deps)), rp("no mint", depsStr(o.Deps)))
			}
			// env for replacements
			if o.OK {
				if sent := MessageSentOf(o.Events); len(sent) == 1 {
					if kind == "SendMessage" {
						post.Env = envPut(post.Env, "u", sent[0])
					}
					if kind == "DepositForBurn" {
						post.Env = envPut(post.Env, "d", sent[0])
					}
				}
			}
			post.Model, post.MKey = next, next.key()
			// conservation: supply = genesis + sum(minted) - burned
			sum := new(big.Int)
			for _, v := range next.Minted {
				x, _ := new(big.Int).SetString(v, 10)
				sum.Add(sum, x)
			}
			wantSupply := new(big.Int).Add(genesisSupply.BigInt(), sum)
			wantSupply.Sub(wantSupply, next.Burned)
			if got := w.Supply("uusdc").BigInt(); got.Cmp(wantSupply) != 0 {
				r.Violate("C04 total minted differs from the sum over distinct accepted burn messages",
					fmt.Sprintf("after %v: supply %s, expected %s (genesis %s + minted %s - burned %s)", descs(post.Path), got, wantSupply, genesisSupply, sum, next.Burned), rp(wantSupply.String(), got.String()))
			}
			return true
		},
	}
	bfs.Explore(r)
}
