package main

// C16 -- the wire encodings are the CCTP formats and round-trip exactly.
// Exhaustive product over lengths x byte patterns (decode side) and over
// boundary field values x field sizes (encode side), judged by the independent
// reference codec in mc/refcodec (literal offsets, no import from x/cctp).

import (
	"bytes"
	"fmt"
	"math/big"

	"cosmossdk.io/math"

	cctptypes "github.com/circlefin/noble-cctp/x/cctp/types"

	"cctpmc/refcodec"
)

func init() {
	register(&Check{
		ID:    "C16",
		Level: "model_checking",
		Rule: "exhaustive enumeration of byte strings: every length 0..N (N=300 quick, 2000 thorough) x {position-tagged, zeros, 0xFF, and one non-zero byte walked through every position (values 0x01/0x80/0xFF)}; thorough also two non-zero bytes through every pair of positions at lengths 116, 117, 132, 248, 249; " +
			"and of field values: boundary sets for every integer field x 32-byte patterns x field sizes {0,31,32,33} x body lengths; states = distinct inputs, transitions = implementation calls; " +
			"distinct_nontrivial = distinct inputs that exercise a field boundary or an error path",
		Assumptions: []string{"refcodec is a correct reading of the layout in the property statement"},
		Jobs:        c16Jobs,
		Vacuity: func(m *Run) []string {
			if m.Classes["decode-ok"] == 0 || m.Classes["decode-reject"] == 0 || m.Classes["encode-ok"] == 0 || m.Classes["encode-reject"] == 0 {
				return []string{fmt.Sprintf("C16 vacuous: classes %v", m.Classes)}
			}
			return nil
		},
	})
	replayers["codec"] = c16Replay
}

func c16Jobs(tier string) []Job {
	N := 300
	vals := []byte{0x01}
	if tier == "thorough" {
		N = 2000
		vals = []byte{0x01, 0x80, 0xFF}
	}
	var jobs []Job
	step := 20
	for lo := 0; lo <= N; lo += step {
		lo := lo
		hi := lo + step - 1
		if hi > N {
			hi = N
		}
		jobs = append(jobs, Job{Name: fmt.Sprintf("decode-len-%d-%d", lo, hi), Run: func(r *Run) {
			for L := lo; L <= hi; L++ {
				c16DecodeLen(r, L, vals)
			}
		}})
	}
	if tier == "thorough" {
		// two non-zero bytes walked through every PAIR of positions of the fixed-layout lengths
		for _, L := range []int{116, 117, 132, 248, 249} {
			L := L
			jobs = append(jobs, Job{Name: fmt.Sprintf("decode-pairs-len-%d", L), Run: func(r *Run) {
				for p := 0; p < L; p++ {
					for q := p + 1; q < L; q++ {
						for _, vv := range [][2]byte{{0xFF, 0x01}, {0x01, 0x80}} {
							b := make([]byte, L)
							b[p], b[q] = vv[0], vv[1]
							kind := fmt.Sprintf("pair@%d=%02x,@%d=%02x", p, vv[0], q, vv[1])
							r.States++
							c16Safely(r, "message", kind, b, func() { c16CheckDecodeMessage(r, kind, b) })
							c16Safely(r, "burn message", kind, b, func() { c16CheckDecodeBurn(r, kind, b) })
						}
					}
				}
				r.Distinct(fmt.Sprintf("pairs/%d", L))
			}})
		}
	}
	jobs = append(jobs, Job{Name: "encode-message", Run: func(r *Run) { c16EncodeMessage(r) }})
	jobs = append(jobs, Job{Name: "encode-burn", Run: func(r *Run) { c16EncodeBurn(r) }})
	return jobs
}

func c16Patterns(L int, vals []byte, f func(kind string, b []byte)) {
	b := make([]byte, L)
	for i := range b {
		b[i] = byte(i*31 + 7)
	}
	f("tagged", b)
	f("zeros", make([]byte, L))
	b = make([]byte, L)
	for i := range b {
		b[i] = 0xFF
	}
	f("ff", b)
	for _, v := range vals {
		for p := 0; p < L; p++ {
			b = make([]byte, L)
			b[p] = v
			f(fmt.Sprintf("walk@%d=%02x", p, v), b)
		}
	}
}

func codecReplay(kind string, in []byte, exp, obs string) Replay {
	return Replay{Kind: "codec", Data: map[string]any{"what": kind, "hex": fmt.Sprintf("%x", in)}, Expected: exp, Observed: obs}
}

func c16DecodeLen(r *Run, L int, vals []byte) {
	c16Patterns(L, vals, func(kind string, b []byte) {
		r.States++
		c16Safely(r, "message", kind, b, func() { c16CheckDecodeMessage(r, kind, b) })
		c16Safely(r, "burn message", kind, b, func() { c16CheckDecodeBurn(r, kind, b) })
		if L == 116 || L == 115 || L == 132 || L == 131 || L == 133 || L == 248 || kind != "zeros" {
			r.Distinct(fmt.Sprintf("%d/%s", L, kind))
		}
	})
	if L == 116 || L == 248 {
		b := make([]byte, L)
		for i := range b {
			b[i] = byte(i*31 + 7)
		}
		r.Sample("decode", map[string]any{"len": L, "pattern": "tagged", "hex": fmt.Sprintf("%x", b)})
	}
}

// c16Safely turns a panic of the implementation codec into a violation (wrong
// lengths must be rejected with an error).
func c16Safely(r *Run, what, kind string, b []byte, f func()) {
	defer func() {
		if p := recover(); p != nil {
			r.Violate("C16 "+what+" codec panics instead of returning an error", fmt.Sprintf("len=%d %s: %v", len(b), kind, p),
				codecReplay(what+"-decode", b, "error", fmt.Sprint(p)))
		}
	}()
	f()
}

func c16CheckDecodeMessage(r *Run, kind string, b []byte) {
	in := append([]byte{}, b...)
	im, ierr := new(cctptypes.Message).Parse(in)
	r.Transitions++
	rm, rerr := refcodec.DecodeMessage(b)
	if (ierr == nil) != (rerr == nil) {
		r.Violate("C16 message decode accept/reject differs from the CCTP layout",
			fmt.Sprintf("len=%d %s: implementation err=%v, reference err=%v", len(b), kind, ierr, rerr),
			codecReplay("message-decode", b, fmt.Sprint(rerr), fmt.Sprint(ierr)))
		return
	}
	if ierr != nil {
		r.Class("decode-reject")
		return
	}
	r.Class("decode-ok")
	if im.Version != rm.Version || im.SourceDomain != rm.SourceDomain || im.DestinationDomain != rm.DestinationDomain || im.Nonce != rm.Nonce ||
		!bytes.Equal(im.Sender, rm.Sender) || !bytes.Equal(im.Recipient, rm.Recipient) || !bytes.Equal(im.DestinationCaller, rm.DestinationCaller) || !bytes.Equal(im.MessageBody, rm.Body) {
		r.Violate("C16 message decoded differently from the CCTP layout",
			fmt.Sprintf("len=%d %s: implementation %+v, reference %+v", len(b), kind, *im, *rm),
			codecReplay("message-decode", b, fmt.Sprintf("%+v", *rm), fmt.Sprintf("%+v", *im)))
		return
	}
	out, err := im.Bytes()
	r.Transitions++
	if err != nil || !bytes.Equal(out, b) {
		r.Violate("C16 message decode-then-encode is not the identity",
			fmt.Sprintf("len=%d %s: err=%v out=%x", len(b), kind, err, out), codecReplay("message-decode", b, fmt.Sprintf("%x", b), fmt.Sprintf("%x err=%v", out, err)))
	}
	if !bytes.Equal(in, b) {
		r.Violate("C16 decoder modified its input", fmt.Sprintf("len=%d %s", len(b), kind), codecReplay("message-decode", b, "", ""))
	}
}

func c16CheckDecodeBurn(r *Run, kind string, b []byte) {
	in := append([]byte{}, b...)
	im, ierr := new(cctptypes.BurnMessage).Parse(in)
	r.Transitions++
	rm, rerr := refcodec.DecodeBurn(b)
	if (ierr == nil) != (rerr == nil) {
		r.Violate("C16 burn message decode accept/reject differs from the CCTP layout",
			fmt.Sprintf("len=%d %s: implementation err=%v, reference err=%v", len(b), kind, ierr, rerr),
			codecReplay("burn-decode", b, fmt.Sprint(rerr), fmt.Sprint(ierr)))
		return
	}
	if ierr != nil {
		r.Class("decode-reject")
		return
	}
	r.Class("decode-ok")
	if im.Version != rm.Version || !bytes.Equal(im.BurnToken, rm.BurnToken) || !bytes.Equal(im.MintRecipient, rm.MintRecipient) ||
		im.Amount.IsNil() || im.Amount.BigInt().Cmp(rm.Amount) != 0 || !bytes.Equal(im.MessageSender, rm.MessageSender) {
		r.Violate("C16 burn message decoded differently from the CCTP layout",
			fmt.Sprintf("%s: implementation %+v, reference %+v", kind, *im, *rm),
			codecReplay("burn-decode", b, fmt.Sprintf("%+v", *rm), fmt.Sprintf("%+v", *im)))
		return
	}
	out, err := im.Bytes()
	r.Transitions++
	if err != nil || !bytes.Equal(out, b) {
		r.Violate("C16 burn message decode-then-encode is not the identity",
			fmt.Sprintf("%s: err=%v out=%x", kind, err, out), codecReplay("burn-decode", b, fmt.Sprintf("%x", b), fmt.Sprintf("%x err=%v", out, err)))
	}
}

func field32Variants() [][]byte {
	ff := bytes.Repeat([]byte{0xFF}, 32)
	return [][]byte{distinct32(0x40), make([]byte, 32), ff}
}

func c16EncodeMessage(r *Run) {
	u32 := []uint32{0, 1, 4, 1<<32 - 1}
	u64 := []uint64{0, 1, 255, 256, 1<<32 - 1, 1 << 32, 1<<64 - 1}
	f32 := field32Variants()
	bodies := [][]byte{nil, {9}, bytes.Repeat([]byte{0xAB}, 132), bytes.Repeat([]byte{0xCD}, 300)}
	check := func(v refcodec.Message, label string) {
		r.States++
		im := cctptypes.Message{Version: v.Version, SourceDomain: v.SourceDomain, DestinationDomain: v.DestinationDomain, Nonce: v.Nonce,
			Sender: v.Sender, Recipient: v.Recipient, DestinationCaller: v.DestinationCaller, MessageBody: v.Body}
		out, ierr := im.Bytes()
		r.Transitions++
		ref, rerr := refcodec.EncodeMessage(&v)
		data := map[string]any{"what": "message-encode", "value": fmt.Sprintf("%+v", v)}
		if (ierr == nil) != (rerr == nil) {
			r.Violate("C16 message encode accept/reject differs (field sizes)", fmt.Sprintf("%s: implementation err=%v reference err=%v", label, ierr, rerr),
				Replay{Kind: "codec", Data: data, Expected: fmt.Sprint(rerr), Observed: fmt.Sprint(ierr)})
			return
		}
		if ierr != nil {
			r.Class("encode-reject")
			r.Distinct("msg-enc-reject/" + label)
			return
		}
		r.Class("encode-ok")
		if !bytes.Equal(out, ref) {
			r.Violate("C16 message encoding differs from the CCTP layout", fmt.Sprintf("%s: implementation %x reference %x", label, out, ref),
				Replay{Kind: "codec", Data: data, Expected: fmt.Sprintf("%x", ref), Observed: fmt.Sprintf("%x", out)})
			return
		}
		back, err := new(cctptypes.Message).Parse(out)
		r.Transitions++
		if err != nil || back.Version != v.Version || back.SourceDomain != v.SourceDomain || back.DestinationDomain != v.DestinationDomain || back.Nonce != v.Nonce ||
			!bytes.Equal(back.Sender, v.Sender) || !bytes.Equal(back.Recipient, v.Recipient) || !bytes.Equal(back.DestinationCaller, v.DestinationCaller) || !bytes.Equal(back.MessageBody, v.Body) {
			r.Violate("C16 message encode-then-decode is not the identity", label, Replay{Kind: "codec", Data: data})
		}
	}
	n := 0
	for _, ver := range u32 {
		for _, src := range u32 {
			for _, dst := range u32 {
				for _, nonce := range u64 {
					for si, s := range f32 {
						for ri, rc := range f32 {
							for ci, c := range f32 {
								for bi, body := range bodies {
									v := refcodec.Message{Version: ver, SourceDomain: src, DestinationDomain: dst, Nonce: nonce, Sender: s, Recipient: rc, DestinationCaller: c, Body: body}
									label := fmt.Sprintf("v=%d s=%d d=%d n=%d f=%d%d%d b=%d", ver, src, dst, nonce, si, ri, ci, bi)
									check(v, label)
									if n%977 == 0 {
										r.Distinct("msg-enc/" + label)
									}
									n++
								}
							}
						}
					}
				}
			}
		}
	}
	// wrong field sizes, one and two fields at a time
	sizes := []int{0, 31, 32, 33}
	for _, a := range sizes {
		for _, b := range sizes {
			for _, c := range sizes {
				v := refcodec.Message{Version: 0, SourceDomain: 4, DestinationDomain: 1, Nonce: 3,
					Sender: bytes.Repeat([]byte{1}, a), Recipient: bytes.Repeat([]byte{2}, b), DestinationCaller: bytes.Repeat([]byte{3}, c), Body: []byte("x")}
				check(v, fmt.Sprintf("sizes %d/%d/%d", a, b, c))
			}
		}
	}
	r.Sample("encode", map[string]any{"message": "version/source/destination in {0,1,4,2^32-1}, nonce in {0,1,255,256,2^32-1,2^32,2^64-1}, 3 patterns per 32-byte field, bodies {0,1,132,300}B", "cases": n})
}

func c16Amounts() []*big.Int {
	m1 := func(n uint) *big.Int { return new(big.Int).Sub(bigPow2(n), big.NewInt(1)) }
	return []*big.Int{big.NewInt(0), big.NewInt(1), big.NewInt(255), big.NewInt(256), m1(64), bigPow2(64), bigPow2(128), bigPow2(255), m1(256),
		new(big.Int).Add(bigPow2(248), big.NewInt(1))}
}

func c16EncodeBurn(r *Run) {
	u32 := []uint32{0, 1, 1<<32 - 1}
	f32 := field32Variants()
	check := func(v refcodec.BurnMessage, label string) {
		r.States++
		im := cctptypes.BurnMessage{Version: v.Version, BurnToken: v.BurnToken, MintRecipient: v.MintRecipient, Amount: math.NewIntFromBigInt(v.Amount), MessageSender: v.MessageSender}
		out, ierr := im.Bytes()
		r.Transitions++
		ref, rerr := refcodec.EncodeBurn(&v)
		data := map[string]any{"what": "burn-encode", "value": fmt.Sprintf("%+v", v)}
		if (ierr == nil) != (rerr == nil) {
			r.Violate("C16 burn message encode accept/reject differs (field sizes)", fmt.Sprintf("%s: implementation err=%v reference err=%v", label, ierr, rerr),
				Replay{Kind: "codec", Data: data, Expected: fmt.Sprint(rerr), Observed: fmt.Sprint(ierr)})
			return
		}
		if ierr != nil {
			r.Class("encode-reject")
			r.Distinct("burn-enc-reject/" + label)
			return
		}
		r.Class("encode-ok")
		r.Distinct("burn-enc/" + label)
		if !bytes.Equal(out, ref) {
			r.Violate("C16 burn message encoding differs from the CCTP layout", fmt.Sprintf("%s: implementation %x reference %x", label, out, ref),
				Replay{Kind: "codec", Data: data, Expected: fmt.Sprintf("%x", ref), Observed: fmt.Sprintf("%x", out)})
			return
		}
		back, err := new(cctptypes.BurnMessage).Parse(out)
		r.Transitions++
		if err != nil || back.Version != v.Version || !bytes.Equal(back.BurnToken, v.BurnToken) || !bytes.Equal(back.MintRecipient, v.MintRecipient) ||
			back.Amount.BigInt().Cmp(v.Amount) != 0 || !bytes.Equal(back.MessageSender, v.MessageSender) {
			r.Violate("C16 burn message encode-then-decode is not the identity", label, Replay{Kind: "codec", Data: data})
		}
	}
	for _, ver := range u32 {
		for ti, tok := range f32 {
			for ri, rc := range f32 {
				for ai, amt := range c16Amounts() {
					for si, s := range f32 {
						check(refcodec.BurnMessage{Version: ver, BurnToken: tok, MintRecipient: rc, Amount: amt, MessageSender: s},
							fmt.Sprintf("v=%d f=%d%d%d a=%d", ver, ti, ri, si, ai))
					}
				}
			}
		}
	}
	sizes := []int{0, 31, 32, 33}
	for _, a := range sizes {
		for _, b := range sizes {
			for _, c := range sizes {
				check(refcodec.BurnMessage{Version: 0, BurnToken: bytes.Repeat([]byte{1}, a), MintRecipient: bytes.Repeat([]byte{2}, b), Amount: big.NewInt(77), MessageSender: bytes.Repeat([]byte{3}, c)},
					fmt.Sprintf("sizes %d/%d/%d", a, b, c))
			}
		}
	}
	r.Sample("encode", map[string]any{"burn": "amounts {0,1,255,256,2^64-1,2^64,2^128,2^255,2^256-1,2^248+1}, 3 patterns per 32-byte field, sizes {0,31,32,33}"})
}

func c16Replay(rp *Replay) int {
	fmt.Println(" data:", rp.Data)
	what, _ := rp.Data["what"].(string)
	hx, _ := rp.Data["hex"].(string)
	if hx == "" && what != "message-decode" && what != "burn-decode" {
		return 0
	}
	var b []byte
	fmt.Sscanf(hx, "%x", &b)
	switch what {
	case "message-decode":
		im, ierr := new(cctptypes.Message).Parse(b)
		rm, rerr := refcodec.DecodeMessage(b)
		fmt.Printf(" implementation: %+v err=%v\n reference:      %+v err=%v\n", im, ierr, rm, rerr)
	case "burn-decode":
		im, ierr := new(cctptypes.BurnMessage).Parse(b)
		rm, rerr := refcodec.DecodeBurn(b)
		fmt.Printf(" implementation: %+v err=%v\n reference:      %+v err=%v\n", im, ierr, rm, rerr)
	}
	return 0
}
