package main

// The finite universe the explorations draw from: accounts, attester keys,
// canonical genesis, and the harness-side "attestation service".

import (
	"crypto/ecdsa"
	"crypto/sha256"
	"encoding/hex"
	"fmt"
	"math/big"
	"sort"
	"strings"

	"cosmossdk.io/math"
	sdk "github.com/cosmos/cosmos-sdk/types"
	"github.com/ethereum/go-ethereum/crypto"

	cctptypes "github.com/circlefin/noble-cctp/x/cctp/types"

	"cctpmc/refcodec"
)

// ---------------------------------------------------------------------------
// Accounts

type Account struct {
	Name string
	Addr sdk.AccAddress
	Str  string // canonical bech32
}

func mkAccount(i int) Account {
	ensureConfig()
	h := sha256.Sum256([]byte(fmt.Sprintf("verif-account-%d", i)))
	a := sdk.AccAddress(h[:20])
	return Account{Name: fmt.Sprintf("A%d", i), Addr: a, Str: a.String()}
}

var Accts = func() []Account {
	var out []Account
	for i := 0; i < 8; i++ {
		out = append(out, mkAccount(i))
	}
	return out
}()

// canonical roles in the base genesis
var (
	Owner      = Accts[0]
	AttMgr     = Accts[1]
	Pauser     = Accts[2]
	TokenCtl   = Accts[3]
	UserA      = Accts[4]
	UserB      = Accts[5]
	Outsider   = Accts[6]
	ModuleAcct = func() Account {
		ensureConfig()
		return Account{Name: "MODULE", Addr: cctptypes.ModuleAddress, Str: cctptypes.ModuleAddress.String()}
	}()
)

// ShortAcct: account addresses need not be 20 bytes long; this one has 8.
var ShortAcct = func() Account {
	ensureConfig()
	a := sdk.AccAddress([]byte{0x51, 0x52, 0x53, 0x54, 0x55, 0x56, 0x57, 0x58})
	return Account{Name: "S8", Addr: a, Str: a.String()}
}()

func acctName(s string) string {
	if s == ShortAcct.Str {
		return ShortAcct.Name
	}
	for _, a := range Accts {
		if a.Str == s {
			return a.Name
		}
	}
	if s == ModuleAcct.Str {
		return "MODULE"
	}
	return s
}

func pad32(b []byte) []byte {
	out := make([]byte, 32)
	copy(out[32-len(b):], b)
	return out
}

// distinct32 returns 32 bytes that are all different (tag in the high nibble area).
func distinct32(tag byte) []byte {
	out := make([]byte, 32)
	for i := range out {
		out[i] = tag ^ byte(i*7+1)
	}
	return out
}

// ---------------------------------------------------------------------------
// Attester keys

type AttKey struct {
	Name    string
	Priv    *ecdsa.PrivateKey
	Pub     []byte // 65-byte uncompressed
	Hex     string // lower-case hex, no prefix
	EthAddr []byte
}

func mkKey(i int) AttKey {
	seed := crypto.Keccak256([]byte(fmt.Sprintf("verif-attester-%d", i)))
	priv, err := crypto.ToECDSA(seed)
	if err != nil {
		panic(err)
	}
	pub := crypto.FromECDSAPub(&priv.PublicKey)
	return AttKey{
		Name: fmt.Sprintf("K%d", i), Priv: priv, Pub: pub, Hex: hex.EncodeToString(pub),
		EthAddr: crypto.PubkeyToAddress(priv.PublicKey).Bytes(),
	}
}

var Keys = func() []AttKey {
	var out []AttKey
	for i := 1; i <= 6; i++ {
		out = append(out, mkKey(i))
	}
	return out
}()

// Spellings of an attester public key accepted by common.FromHex.
func (k AttKey) Spell(s int) string {
	switch s {
	case 1:
		return "0x" + k.Hex
	case 2:
		return strings.ToUpper(k.Hex)
	}
	return k.Hex
}

var secpN = crypto.S256().Params().N

// SignRSV returns the canonical (low-s) 65-byte signature with v in {0,1}.
func (k AttKey) SignRSV(msg []byte) []byte {
	sig, err := crypto.Sign(crypto.Keccak256(msg), k.Priv)
	if err != nil {
		panic(err)
	}
	return sig
}

// HighSTwin maps (r,s,v) to (r, n-s, v^1).
func HighSTwin(sig []byte) []byte {
	out := append([]byte{}, sig...)
	s := new(big.Int).SetBytes(sig[32:64])
	s.Sub(secpN, s)
	copy(out[32:64], pad32(s.Bytes()))
	out[64] ^= 1
	return out
}

// MirrorKey returns the key with private scalar n-d: its public key has the same X
// coordinate (Y negated), a different address, and is nobody's attester.
func MirrorKey(k AttKey) AttKey {
	d := new(big.Int).Sub(secpN, k.Priv.D)
	priv, err := crypto.ToECDSA(pad32(d.Bytes()))
	if err != nil {
		panic(err)
	}
	pub := crypto.FromECDSAPub(&priv.PublicKey)
	return AttKey{Name: k.Name + "-mirror", Priv: priv, Pub: pub, Hex: hex.EncodeToString(pub), EthAddr: crypto.PubkeyToAddress(priv.PublicKey).Bytes()}
}

// Attest builds the honest attestation of msg by the given keys: sorted by
// Ethereum address, strictly increasing.
func Attest(msg []byte, keys []AttKey) []byte {
	ks := append([]AttKey{}, keys...)
	sort.Slice(ks, func(i, j int) bool { return string(ks[i].EthAddr) < string(ks[j].EthAddr) })
	var out []byte
	for _, k := range ks {
		out = append(out, k.SignRSV(msg)...)
	}
	return out
}

// ---------------------------------------------------------------------------
// Canonical configuration

const (
	DomEth  = uint32(0)
	DomAvax = uint32(1)
	Noble   = uint32(4)
)

var (
	RemoteMessenger0 = distinct32(0xA0) // token messenger on domain 0
	RemoteMessenger1 = distinct32(0xB0)
	RemoteToken0     = distinct32(0xC0) // USDC on domain 0
	RemoteToken1     = distinct32(0xD0)
)

// BaseGenesis: roles A0..A3, attesters K1,K2 threshold 2 (unless overridden),
// messengers for domains 0 and 1, token pair (0,RemoteToken0)->uusdc, limit none.
func BaseGenesis() cctptypes.GenesisState {
	return cctptypes.GenesisState{
		Owner:                             Owner.Str,
		AttesterManager:                   AttMgr.Str,
		Pauser:                            Pauser.Str,
		TokenController:                   TokenCtl.Str,
		AttesterList:                      []cctptypes.Attester{{Attester: Keys[0].Hex}, {Attester: Keys[1].Hex}},
		PerMessageBurnLimitList:           nil,
		BurningAndMintingPaused:           &cctptypes.BurningAndMintingPaused{Paused: false},
		SendingAndReceivingMessagesPaused: &cctptypes.SendingAndReceivingMessagesPaused{Paused: false},
		MaxMessageBodySize:                &cctptypes.MaxMessageBodySize{Amount: 8000},
		NextAvailableNonce:                &cctptypes.Nonce{Nonce: 0},
		SignatureThreshold:                &cctptypes.SignatureThreshold{Amount: 2},
		TokenPairList: []cctptypes.TokenPair{
			{RemoteDomain: DomEth, RemoteToken: RemoteToken0, LocalToken: "uusdc"},
		},
		TokenMessengerList: []cctptypes.RemoteTokenMessenger{
			{DomainId: DomEth, Address: RemoteMessenger0},
			{DomainId: DomAvax, Address: RemoteMessenger1},
		},
	}
}

func BaseLedger() LedgerGenesis {
	lg := DefaultLedger()
	lg.Balances[UserA.Str] = "1000000"
	lg.Balances[UserB.Str] = "500"
	lg.Balances[ShortAcct.Str] = "40"
	return lg
}

// NewBaseWorld builds a world from ledger + cctp genesis.
func NewBaseWorld(kind StoreKind, lg LedgerGenesis, g cctptypes.GenesisState) *World {
	w := NewWorld(kind)
	w.InitLedger(lg)
	w.InitCCTP(g)
	return w
}

// ---------------------------------------------------------------------------
// Message construction for the "remote chain" side (reference encoder only)

func RefMsg(version, src, dst uint32, nonce uint64, sender, recipient, caller, body []byte) []byte {
	b, err := refcodec.EncodeMessage(&refcodec.Message{
		Version: version, SourceDomain: src, DestinationDomain: dst, Nonce: nonce,
		Sender: sender, Recipient: recipient, DestinationCaller: caller, Body: body,
	})
	if err != nil {
		panic(err)
	}
	return b
}

func RefBurn(version uint32, token, mintRecipient []byte, amount *big.Int, sender []byte) []byte {
	b, err := refcodec.EncodeBurn(&refcodec.BurnMessage{
		Version: version, BurnToken: token, MintRecipient: mintRecipient, Amount: amount, MessageSender: sender,
	})
	if err != nil {
		panic(err)
	}
	return b
}

var Zero32 = make([]byte, 32)

var PaddedModule = pad32(cctptypes.ModuleAddress)

func bigPow2(n uint) *big.Int { return new(big.Int).Lsh(big.NewInt(1), n) }

func intFromBig(b *big.Int) math.Int { return math.NewIntFromBigInt(b) }
