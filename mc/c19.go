package main

// C19 -- registries behave as exact maps and queries reflect them.
// Per-registry BFS to closure over small colliding key universes, then a
// combined BFS for cross-registry interference; after every transition every
// query is compared with reference maps maintained from the outcomes.

import (
	"bytes"
	"fmt"
	"sort"

	"cosmossdk.io/math"

	cctptypes "github.com/circlefin/noble-cctp/x/cctp/types"
)

func init() {
	register(&Check{
		ID:    "C19",
		Level: "model_checking",
		Rule: "per-registry BFS to closure (messengers: domains {0,1,256} x 2 addresses; token pairs: domains {0,1} x tokens differing only in first / only in last byte x 2 local denoms; burn limits: denoms uusdc/UUSDC/uatom x 2 amounts; " +
			"attesters: 4 strings incl. two spellings of one key; used nonces: 4 pairs by real receives) and a combined BFS (depth 3 quick / 5 thorough, sharded) over a mixed menu incl. unauthorised and duplicate/missing cases; " +
			"after every transition: every single-item query for every key of the universe, every list query for page sizes 1..n+1 in key and offset mode with count_total, and all scalar queries vs the reference maps; " +
			"distinct_nontrivial = distinct (registry content, transaction, outcome) triples",
		Assumptions: []string{"the burn-limit single query is asked under the stored (lower-cased) key; count_total is judged in offset mode only"},
		Jobs:        c19Jobs,
		Vacuity: func(m *Run) []string {
			if m.Classes["ok"] == 0 || m.Classes["error"] == 0 {
				return []string{"C19 vacuous"}
			}
			return nil
		},
	})
}

const c19Shards = 12

func c19Jobs(tier string) []Job {
	jobs := []Job{}
	for _, reg := range []string{"messengers", "pairs", "limits", "attesters", "nonces"} {
		reg := reg
		jobs = append(jobs, Job{Name: "registry-closure " + reg, Run: func(r *Run) { c19Run(r, reg, 100, 0, 1) }})
	}
	for _, n := range []int{101, 130} { // registries longer than the default page of 100
		n := n
		jobs = append(jobs, Job{Name: fmt.Sprintf("large-registries-%d", n), Run: func(r *Run) { c19Large(r, n) }})
	}
	depth := 3
	if tier == "thorough" {
		depth = 5
	}
	for sh := 0; sh < c19Shards; sh++ {
		sh := sh
		jobs = append(jobs, Job{Name: fmt.Sprintf("combined-shard%d", sh), Run: func(r *Run) { c19Run(r, "combined", depth, sh, c19Shards) }})
	}
	return jobs
}

func c19Run(r *Run, reg string, depth, shard, shards int) {
	g := BaseGenesis()
	g.AttesterList = []cctptypes.Attester{{Attester: Keys[0].Hex}}
	g.SignatureThreshold = &cctptypes.SignatureThreshold{Amount: 1}
	g.TokenPairList = nil
	g.TokenMessengerList = nil
	signers := Keys[0:1]

	tA := distinct32(0xC0)
	tB := append([]byte{}, tA...)
	tB[0] ^= 0xFF // differs only in the first byte
	tC := append([]byte{}, tA...)
	tC[31] ^= 0xFF                                  // differs only in the last byte
	tShort := pad32(bytes.Repeat([]byte{0xA5}, 20)) // a 20-byte remote token, as EVM tokens are; also queried in its short spelling
	addrX, addrY := distinct32(0xA0), distinct32(0xA1)
	u := QUniverse{
		Attesters: []string{Keys[0].Hex, Keys[0].Spell(1), Keys[1].Hex, Keys[1].Spell(2), Keys[2].Hex, Keys[3].Hex, "04", "0"},
		Denoms:    []string{"uusdc", "uatom", "uosmo"},
		Nonces:    []noncePair{{0, 0}, {0, 1}, {1, 0}, {1, 1}, {0, 256}},
		Domains:   []uint32{0, 1, 256, 2},
	}
	u.addPair(0, tShort)
	u.addPair(1, tShort)
	// "... established by successful transactions AND GENESIS" (round 6, C19r6-1): entries that only genesis can spell this
	// way -- an upper-case attester key, an upper-case denom next to its lower-case twin, a mixed-case local token -- and the
	// root of the search is judged against the genesis document, not against what the import made of it
	g.AttesterList = append(g.AttesterList, cctptypes.Attester{Attester: Keys[3].Spell(2)})
	g.PerMessageBurnLimitList = append(g.PerMessageBurnLimitList, cctptypes.PerMessageBurnLimit{Denom: "UOSMO", Amount: math.NewInt(7)})
	g.TokenPairList = append(g.TokenPairList, cctptypes.TokenPair{RemoteDomain: 2, RemoteToken: tShort, LocalToken: "uUSDC"})
	u.Attesters = append(u.Attesters, Keys[3].Spell(2))
	u.Denoms = append(u.Denoms, "UOSMO")
	u.addPair(2, tShort)
	scn := Scenario{Name: "c19-" + reg, Ledger: BaseLedger(), Genesis: g}
	for _, d := range []uint32{0, 1, 256} {
		for _, t := range [][]byte{tA, tB, tC} {
			u.addPair(d, t)
		}
	}

	var menu []Action
	addMessengers := func(doms []uint32, addrs [][]byte) {
		for _, d := range doms {
			for i, a := range addrs {
				menu = append(menu, Act(fmt.Sprintf("addRemoteTokenMessenger(%d,addr%d) by A0", d, i), &cctptypes.MsgAddRemoteTokenMessenger{From: Owner.Str, DomainId: d, Address: a}))
			}
			menu = append(menu, Act(fmt.Sprintf("removeRemoteTokenMessenger(%d) by A0", d), &cctptypes.MsgRemoveRemoteTokenMessenger{From: Owner.Str, DomainId: d}))
		}
	}
	addPairs := func(doms []uint32, toks [][]byte, locals []string) {
		for _, d := range doms {
			for ti, t := range toks {
				for _, l := range locals {
					menu = append(menu, Act(fmt.Sprintf("linkTokenPair(%d,token%d,%s) by A3", d, ti, l), &cctptypes.MsgLinkTokenPair{From: TokenCtl.Str, RemoteDomain: d, RemoteToken: t, LocalToken: l}))
				}
				menu = append(menu, Act(fmt.Sprintf("unlinkTokenPair(%d,token%d) by A3", d, ti), &cctptypes.MsgUnlinkTokenPair{From: TokenCtl.Str, RemoteDomain: d, RemoteToken: t, LocalToken: "ignored"}))
			}
		}
	}
	addLimits := func(denoms []string, amts []int64) {
		for _, d := range denoms {
			for _, a := range amts {
				menu = append(menu, Act(fmt.Sprintf("setMaxBurnAmountPerMessage(%s,%d) by A3", d, a), &cctptypes.MsgSetMaxBurnAmountPerMessage{From: TokenCtl.Str, LocalToken: d, Amount: math.NewInt(a)}))
			}
		}
	}
	addAttesters := func(strs []string) {
		for _, s := range strs {
			menu = append(menu,
				Act("enableAttester("+attName(s)+") by A1", &cctptypes.MsgEnableAttester{From: AttMgr.Str, Attester: s}),
				Act("disableAttester("+attName(s)+") by A1", &cctptypes.MsgDisableAttester{From: AttMgr.Str, Attester: s}))
		}
	}
	addNonces := func(ps []noncePair) {
		for _, p := range ps {
			m := InboundPlain(p.D, p.N, []byte("c19"), nil)
			menu = append(menu, MkReceive(UserA.Str, m, Attest(m, signers), "plain "+p.key()))
		}
	}
	switch reg {
	case "messengers":
		addMessengers([]uint32{0, 1, 256}, [][]byte{addrX, addrY})
	case "pairs":
		addPairs([]uint32{0, 1}, [][]byte{tA, tB, tC}, []string{"uusdc", "UATOM"})
	case "limits":
		addLimits([]string{"uusdc", "UUSDC", "uatom"}, []int64{0, 5})
	case "attesters":
		addAttesters([]string{Keys[0].Hex, Keys[0].Spell(1), Keys[1].Hex, Keys[1].Spell(2), "04"}) // one key in lower and 0x spelling, another in lower and upper case
	case "nonces":
		addNonces([]noncePair{{0, 0}, {0, 1}, {1, 0}, {1, 1}})
	case "combined":
		addMessengers([]uint32{0, 256}, [][]byte{addrX})
		addPairs([]uint32{0, 1}, [][]byte{tA, tC}, []string{"UUSDC"})
		addPairs([]uint32{0}, [][]byte{tShort}, []string{"uusdc", "uatom"})
		addLimits([]string{"UUSDC", "uatom"}, []int64{5})
		addAttesters([]string{Keys[0].Spell(1), Keys[1].Hex})
		addNonces([]noncePair{{0, 1}, {1, 0}})
		menu = append(menu,
			Act("updateSignatureThreshold(2) by A1", &cctptypes.MsgUpdateSignatureThreshold{From: AttMgr.Str, Amount: 2}),
			Act("updateMaxMessageBodySize(50) by A0", &cctptypes.MsgUpdateMaxMessageBodySize{From: Owner.Str, MessageSize: 50}),
			Act("updateMaxMessageBodySize(0) by A0", &cctptypes.MsgUpdateMaxMessageBodySize{From: Owner.Str, MessageSize: 0}),
			Act("unpauseBurningAndMinting by A2", &cctptypes.MsgUnpauseBurningAndMinting{From: Pauser.Str}),
			Act("pauseBurningAndMinting by A2", &cctptypes.MsgPauseBurningAndMinting{From: Pauser.Str}),
			Act("updatePauser(A6) by A0", &cctptypes.MsgUpdatePauser{From: Owner.Str, NewPauser: Outsider.Str}),
			MkSend(UserA.Str, DomEth, distinct32(0x21), []byte("a")),
			Act("linkTokenPair(0,token0,uusdc) by A0 (not the token controller)", &cctptypes.MsgLinkTokenPair{From: Owner.Str, RemoteDomain: 0, RemoteToken: tA, LocalToken: "uusdc"}),
			Act("removeRemoteTokenMessenger(0) by A3 (not the owner)", &cctptypes.MsgRemoveRemoteTokenMessenger{From: TokenCtl.Str, DomainId: 0}),
		)
	}

	bfs := &BFS{
		SeqDepth: map[bool]int{true: 2, false: 1}[reg != "pairs" || r.Tier == "thorough"],
		Scn:      scn, MaxDepth: depth, ValidatePaths: shard == 0, RootShard: shard, RootShards: shards,
		Init: func(r *Run, w *World, root *Node) {
			v := ViewOf(w)
			gv := ViewOfGenesis(&g)
			sort.Strings(gv.Attesters) // the store (and every list query) orders attesters by key
			v.Attesters, v.Limits, v.Pairs, v.Messengers, v.Used = gv.Attesters, gv.Limits, gv.Pairs, gv.Messengers, gv.Used
			root.Model, root.MKey = v, ""
			if errs := CheckQueries(w, v, u); len(errs) > 0 {
				x := scn.Replay("actions", nil)
				x.Expected, x.Observed = v.String(), joinMax(errs, 6)
				r.Violate("C19 queries disagree with the genesis document: "+firstWords(errs[0], 3), joinMax(errs, 6), x)
			}
		},
		Actions: func(n *Node, w *World) []Action { return menu },
		Step: func(r *Run, pre *Node, a Action, o Outcome, w *World, post *Node) bool {
			m := pre.Model.(View)
			p := Predict(preWorld(scn, pre), m, a)
			rp := func(exp, obs string) Replay {
				x := scn.Replay("actions", post.Path)
				x.Expected, x.Observed = exp, obs
				return x
			}
			if o.Panicked {
				r.Violate("C19 panic "+p.Kind, a.Desc+": "+o.PanicVal, rp("", ""))
				return false
			}
			r.Distinct(fmt.Sprintf("%s|%s|%s", c19Content(m), a.Desc, o.Class()))
			if ExpMismatch(p, o) && c19Enforced(p) {
				fp := "C19 " + p.Kind + " accepted (duplicate / missing entry / wrong submitter)"
				if p.Exp == MustSucceed {
					fp = "C19 " + p.Kind + " rejected although the entry can be added/removed"
				}
				r.Violate(fp, fmt.Sprintf("registries %s: %s -> %s %s (expected %s: %s)", c19Content(m), a.Desc, o.Class(), o.Err, p.Exp, p.Why), rp(p.Exp.String()+" "+p.Why, o.Class()+" "+o.Err))
			}
			next := m
			if o.OK {
				next = p.Next
				if p.Exp == MustFail && !c19Enforced(p) {
					next = ViewOf(w) // outside what C19 states (e.g. threshold rules): follow the implementation
				}
			}
			// C19 is about the registries; roles, flags and scalars are compared with the
			// implementation's own export (two read paths must agree), not with a prediction
			cur := ViewOf(w)
			next.Owner, next.AttMgr, next.Pauser, next.TokenCtl, next.Pending, next.HasPending = cur.Owner, cur.AttMgr, cur.Pauser, cur.TokenCtl, cur.Pending, cur.HasPending
			next.BurnPaused, next.SendPaused, next.MaxBody, next.NextNonce, next.Threshold, next.HasThreshold = cur.BurnPaused, cur.SendPaused, cur.MaxBody, cur.NextNonce, cur.Threshold, cur.HasThreshold
			post.Model = next
			// ... except that the scalar a successful transaction has just set is the current value,
			// and its query must answer with it
			if o.OK {
				if why := c19ScalarJustSet(w, &a); why != "" {
					r.Violate("C19 scalar query does not return the value a successful transaction set", fmt.Sprintf("after %v: %s", descs(post.Path), why), rp("", why))
				}
			}
			if errs := CheckQueries(w, next, u); len(errs) > 0 {
				r.Violate("C19 queries disagree with the history: "+firstWords(errs[0], 3),
					fmt.Sprintf("after %v (%s):\n %s", descs(post.Path), o.Class(), joinMax(errs, 6)), rp(next.String(), joinMax(errs, 6)))
			}
			if pre.Depth == 0 && len(r.Samples) < 4 {
				r.Sample("step", map[string]any{"tx": a.Desc, "expected": p.Exp.String(), "observed": o.Class(), "registries_after": c19Content(next)})
			}
			return true
		},
	}
	bfs.Explore(r)
}

func c19Content(v View) string {
	ms := map[string]string{}
	for d, a := range v.Messengers {
		ms[fmt.Sprint(d)] = a[:4]
	}
	ps := map[string]string{}
	for k, l := range v.Pairs {
		ps[k[:6]+k[len(k)-2:]] = l
	}
	return fmt.Sprintf("att=%v lim=%s pairs=%s msgr=%s used=%v thr=%d", shortAtts(v.Attesters), mapStr(v.Limits), mapStr(ps), mapStr(ms), sortedKeys(v.Used), v.Threshold)
}

func firstWords(s string, n int) string {
	out := ""
	cnt := 0
	for _, c := range s {
		if c == ' ' {
			cnt++
			if cnt == n {
				break
			}
		}
		out += string(c)
	}
	return out
}

func joinMax(xs []string, n int) string {
	if len(xs) > n {
		xs = append(append([]string{}, xs[:n]...), fmt.Sprintf("... (%d more)", len(xs)-n))
	}
	s := ""
	for i, x := range xs {
		if i > 0 {
			s += "\n "
		}
		s += x
	}
	return s
}

// c19Enforced: C19 speaks about registries -- adding creates an entry, duplicates and
// removals of missing entries are rejected. Whether a threshold update, a disable that
// would break the quorum, or a user flow is accepted is the subject of other properties.
func c19Enforced(p Pred) bool {
	if p.Exp == MustFail {
		registryReason := false
		for _, c := range p.Conds {
			if !c.OK && c.Name != "submitter holds the role" {
				registryReason = true
			}
		}
		if !registryReason {
			return false // who may submit is C10's subject
		}
	}
	switch p.Kind {
	case "LinkTokenPair", "UnlinkTokenPair", "AddRemoteTokenMessenger", "RemoveRemoteTokenMessenger", "EnableAttester", "SetMaxBurnAmountPerMessage":
		return true
	case "DisableAttester":
		if p.Exp == MustSucceed {
			return true
		}
		for _, c := range p.Conds {
			if !c.OK && (c.Name == "attester is enabled" || c.Name == "submitter holds the role") {
				return true
			}
		}
		return false
	case "ReceiveMessage":
		for _, c := range p.Conds {
			if !c.OK && c.Name == "nonce unused" {
				return true
			}
		}
		return false
	}
	return false
}

// c19ScalarJustSet: the value named by a transaction that has just succeeded must be what the
// corresponding scalar query returns ("" if so, or if the transaction sets no scalar).
func c19ScalarJustSet(w *World, a *Action) string {
	msg, err := a.Decode()
	if err != nil {
		return ""
	}
	cctx, _ := w.ctx.CacheContext()
	switch x := msg.(type) {
	case *cctptypes.MsgUpdateMaxMessageBodySize:
		q, err := w.K.MaxMessageBodySize(cctx, &cctptypes.QueryGetMaxMessageBodySizeRequest{})
		if err != nil || q.Amount.Amount != x.MessageSize {
			return fmt.Sprintf("max message body size set to %d, query answers %v %v", x.MessageSize, q, err)
		}
	case *cctptypes.MsgUpdateSignatureThreshold:
		q, err := w.K.SignatureThreshold(cctx, &cctptypes.QueryGetSignatureThresholdRequest{})
		if err != nil || q.Amount.Amount != x.Amount {
			return fmt.Sprintf("signature threshold set to %d, query answers %v %v", x.Amount, q, err)
		}
	case *cctptypes.MsgUpdatePauser, *cctptypes.MsgUpdateAttesterManager, *cctptypes.MsgUpdateTokenController:
		q, err := w.K.Roles(cctx, &cctptypes.QueryRolesRequest{})
		if err != nil {
			return fmt.Sprintf("roles query failed: %v", err)
		}
		var want, got, slot string
		switch y := msg.(type) {
		case *cctptypes.MsgUpdatePauser:
			want, got, slot = y.NewPauser, q.Pauser, "pauser"
		case *cctptypes.MsgUpdateAttesterManager:
			want, got, slot = y.NewAttesterManager, q.AttesterManager, "attester manager"
		case *cctptypes.MsgUpdateTokenController:
			want, got, slot = y.NewTokenController, q.TokenController, "token controller"
		}
		if got != want {
			return fmt.Sprintf("%s set to %s, roles query answers %s", slot, acctName(want), acctName(got))
		}
	case *cctptypes.MsgPauseBurningAndMinting, *cctptypes.MsgUnpauseBurningAndMinting:
		_, want := msg.(*cctptypes.MsgPauseBurningAndMinting)
		q, err := w.K.BurningAndMintingPaused(cctx, &cctptypes.QueryGetBurningAndMintingPausedRequest{})
		if err != nil || q.Paused.Paused != want {
			return fmt.Sprintf("burning and minting paused set to %v, query answers %v %v", want, q, err)
		}
	case *cctptypes.MsgPauseSendingAndReceivingMessages, *cctptypes.MsgUnpauseSendingAndReceivingMessages:
		_, want := msg.(*cctptypes.MsgPauseSendingAndReceivingMessages)
		q, err := w.K.SendingAndReceivingMessagesPaused(cctx, &cctptypes.QueryGetSendingAndReceivingMessagesPausedRequest{})
		if err != nil || q.Paused.Paused != want {
			return fmt.Sprintf("sending and receiving paused set to %v, query answers %v %v", want, q, err)
		}
	}
	return ""
}

// c19Large: all five registries hold n > 100 entries (imported by genesis); every list query must
// return each entry exactly once for every page size 1..n+1 in both modes, with the right total,
// and single-item queries must find the first, the hundredth and the last entry.
func c19Large(r *Run, n int) {
	g := LargeGenesis(n, "all")
	scn := Scenario{Name: fmt.Sprintf("c19-large-%d", n), Ledger: BaseLedger(), Genesis: g}
	w := scn.Build(KindDB)
	r.States++
	view := ViewOfGenesis(&g)
	var u QUniverse
	for _, i := range []int{0, 99, 100, n - 1} {
		u.Attesters = append(u.Attesters, g.AttesterList[i].Attester)
		u.Denoms = append(u.Denoms, g.PerMessageBurnLimitList[i].Denom)
		u.addPair(g.TokenPairList[i].RemoteDomain, g.TokenPairList[i].RemoteToken)
		u.Nonces = append(u.Nonces, noncePair{g.UsedNoncesList[i].SourceDomain, g.UsedNoncesList[i].Nonce})
		u.Domains = append(u.Domains, g.TokenMessengerList[i].DomainId)
	}
	u.Attesters = append(u.Attesters, "04ff")
	u.Denoms = append(u.Denoms, "unone")
	u.Nonces = append(u.Nonces, noncePair{7, 7})
	u.Domains = append(u.Domains, uint32(n+5))
	r.Transitions++
	r.Class("ok")
	if errs := CheckQueries(w, view, u); len(errs) > 0 {
		x := scn.Replay("actions", nil)
		x.Expected, x.Observed = "every entry exactly once", joinMax(errs, 4)
		r.Violate("C19 queries disagree with the history: "+firstWords(errs[0], 3), fmt.Sprintf("%d entries per registry (genesis): %s", n, joinMax(errs, 6)), x)
	}
	r.Distinct(fmt.Sprintf("large %d", n))
}
