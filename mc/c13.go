package main

// C13 -- the enabled attesters can always meet the threshold.
// BFS to closure from every start state with 1 <= t <= |E| (start states are
// imported through the real InitGenesis).

import (
	"fmt"
	"sort"
	"strings"

	cctptypes "github.com/circlefin/noble-cctp/x/cctp/types"
)

type Expect int

const (
	MustSucceed Expect = iota
	MustFail
	Either
)

func (e Expect) String() string { return [...]string{"MUST_SUCCEED", "MUST_FAIL", "EITHER"}[e] }

type c13Model struct {
	Att map[string]bool
	T   uint32
}

func (m c13Model) clone() c13Model {
	n := c13Model{Att: map[string]bool{}, T: m.T}
	for k := range m.Att {
		n.Att[k] = true
	}
	return n
}

func (m c13Model) key() string {
	ks := sortedKeys(m.Att)
	return fmt.Sprintf("%d|%s", m.T, strings.Join(ks, ","))
}

// c13Universe returns the attester strings of the universe for the tier.
func c13Universe(tier string) (strs []string, nkeys int) {
	nkeys = 3
	spell := []int{1, 2} // extra spellings of K1: 0x-prefixed, upper-case
	if tier == "thorough" {
		nkeys = 4
	}
	for i := 0; i < nkeys; i++ {
		strs = append(strs, Keys[i].Hex)
	}
	for _, s := range spell {
		strs = append(strs, Keys[0].Spell(s))
	}
	strs = append(strs, "04") // a (mis-)enabled string that is a strict prefix of every real key
	return
}

func init() {
	register(&Check{
		ID:    "C13",
		Level: "model_checking",
		Rule: "explicit-state BFS to closure over enable/disable/update-threshold by manager and non-manager, from every start state (E,t) with 1<=t<=|E| imported by InitGenesis; " +
			"a case is one (state, transaction) pair; distinct_nontrivial counts distinct (state, transaction-kind, outcome) triples",
		Assumptions: []string{
			"attesters are counted as registry entries (two spellings of one key are two entries), as the statement does",
			"Apply mirrors baseapp's branch/commit",
		},
		Jobs: c13Jobs,
		Vacuity: func(m *Run) []string {
			var e []string
			if m.Classes["ok"] == 0 || m.Classes["error"] == 0 {
				e = append(e, "C13 vacuous: need both accepted and rejected transitions")
			}
			return e
		},
	})
}

func c13Jobs(tier string) []Job {
	strs, nkeys := c13Universe(tier)
	var jobs []Job
	n := len(strs)
	for mask := 1; mask < 1<<n; mask++ {
		var E []string
		for i := 0; i < n; i++ {
			if mask&(1<<i) != 0 {
				E = append(E, strs[i])
			}
		}
		for t := 1; t <= len(E); t++ {
			E, t := E, t
			jobs = append(jobs, Job{
				Name: fmt.Sprintf("bfs-from-E%0*b-t%d", n, mask, t),
				Run:  func(r *Run) { c13BFS(r, strs, nkeys, E, uint32(t)) },
			})
		}
	}
	return jobs
}

func c13BFS(r *Run, strs []string, nkeys int, E []string, t uint32) {
	g := BaseGenesis()
	g.AttesterList = nil
	for _, a := range E {
		g.AttesterList = append(g.AttesterList, cctptypes.Attester{Attester: a})
	}
	g.SignatureThreshold = &cctptypes.SignatureThreshold{Amount: t}
	scn := Scenario{Name: "c13", Ledger: BaseLedger(), Genesis: g}

	enableArgs := append(append([]string{}, strs...), "", "0x")
	disableArgs := append(append([]string{}, strs...), Keys[5].Hex, "", "0x")
	submitters := []Account{AttMgr, Owner}

	bfs := &BFS{
		SeqDepth:      map[bool]int{true: 2, false: 1}[(len(E) == 2 && t == 1) || (r.Tier == "thorough" && len(E) <= 2)], // two-step sequences from the smaller start states
		Scn:           scn,
		MaxDepth:      64,
		ValidatePaths: r.Shard == 0 || r.Tier == "quick",
		Init: func(r *Run, w *World, root *Node) {
			m := c13Model{Att: map[string]bool{}, T: t}
			for _, a := range E {
				m.Att[a] = true
			}
			root.Model, root.MKey = m, m.key()
		},
		Actions: func(n *Node, w *World) []Action {
			var as []Action
			for _, s := range submitters {
				for _, k := range enableArgs {
					as = append(as, Act(fmt.Sprintf("enable(%s) by %s", attName(k), s.Name), &cctptypes.MsgEnableAttester{From: s.Str, Attester: k}))
				}
				for _, k := range disableArgs {
					as = append(as, Act(fmt.Sprintf("disable(%s) by %s", attName(k), s.Name), &cctptypes.MsgDisableAttester{From: s.Str, Attester: k}))
				}
				for th := 0; th <= nkeys+2; th++ {
					as = append(as, Act(fmt.Sprintf("threshold(%d) by %s", th, s.Name), &cctptypes.MsgUpdateSignatureThreshold{From: s.Str, Amount: uint32(th)}))
				}
				// 32-bit boundaries: sign bit, wrap-around neighbours, maximum
				for _, th := range []uint32{1 << 16, 1<<31 - 1, 1 << 31, 1<<31 + 2, 1<<32 - 2, 1<<32 - 1} {
					as = append(as, Act(fmt.Sprintf("threshold(%d) by %s", th, s.Name), &cctptypes.MsgUpdateSignatureThreshold{From: s.Str, Amount: th}))
				}
			}
			return as
		},
		Step: func(r *Run, pre *Node, a Action, o Outcome, w *World, post *Node) bool {
			m := pre.Model.(c13Model)
			msg, _ := a.Decode()
			exp := Either
			next := m.clone()
			kind := ""
			switch x := msg.(type) {
			case *cctptypes.MsgEnableAttester:
				kind = "enable"
				switch {
				case x.From != AttMgr.Str:
					exp = MustFail
				case m.Att[x.Attester]:
					exp = MustFail // duplicate enable
				default:
					exp = Either
				}
				next.Att[x.Attester] = true
			case *cctptypes.MsgDisableAttester:
				kind = "disable"
				switch {
				case x.From != AttMgr.Str:
					exp = MustFail
				case !m.Att[x.Attester]:
					exp = MustFail // unknown
				case len(m.Att) == 1:
					exp = MustFail // the last attester
				case uint32(len(m.Att))-1 < m.T:
					exp = MustFail // would leave fewer than threshold
				default:
					exp = Either
				}
				delete(next.Att, x.Attester)
			case *cctptypes.MsgUpdateSignatureThreshold:
				kind = "threshold"
				switch {
				case x.From != AttMgr.Str:
					exp = MustFail
				case x.Amount == 0 || x.Amount > uint32(len(m.Att)):
					exp = MustFail
				case x.Amount == m.T:
					exp = Either
				default:
					exp = MustSucceed
				}
				next.T = x.Amount
			}
			r.Distinct(fmt.Sprintf("%s|%s|%s", m.key(), kind, o.Class()))
			rp := func() Replay { return scn.Replay("actions", post.Path) }
			if o.Panicked {
				r.Violate("C13 panic "+kind, fmt.Sprintf("%s panicked: %s", a.Desc, o.PanicVal), rp())
				return false
			}
			if (exp == MustFail && o.OK) || (exp == MustSucceed && !o.OK) {
				rr := rp()
				rr.Expected, rr.Observed = exp.String(), o.Class()+" "+o.Err
				r.Violate(fmt.Sprintf("C13 %s expected %s got %s", kind, exp, o.Class()),
					fmt.Sprintf("in state %s: %s -> %s (%s)", m.key(), a.Desc, o.Class(), o.Err), rr)
			}
			if !o.OK {
				next = m
				if HashBytes(post.Dump) != HashBytes(pre.Dump) {
					r.Violate("C13 rejected transaction changed state", fmt.Sprintf("%s: %v", a.Desc, DiffDumps(pre.Dump, post.Dump)), rp())
				}
			}
			post.Model, post.MKey = next, next.key()
			if len(r.Samples) < 3 {
				r.Sample("transition", map[string]any{"state": m.key(), "tx": a.Desc, "expected": exp.String(), "observed": o.Class()})
			}
			return true
		},
		State: func(r *Run, n *Node, w *World) {
			m := n.Model.(c13Model)
			rp := func() Replay { return scn.Replay("actions", n.Path) }
			atts, err := w.QAttesters()
			thr, err2 := w.QThreshold()
			if err != nil || err2 != nil {
				r.Violate("C13 query failed", fmt.Sprintf("attesters err=%v threshold err=%v", err, err2), rp())
				return
			}
			// the invariant itself
			if thr < 1 || int(thr) > len(atts) {
				r.Violate("C13 invariant broken", fmt.Sprintf("threshold=%d enabled=%d after %v", thr, len(atts), descs(n.Path)), rp())
			}
			// and agreement with the reference model
			got := append([]string{}, atts...)
			sort.Strings(got)
			want := sortedKeys(m.Att)
			if strings.Join(got, ",") != strings.Join(want, ",") || thr != m.T {
				r.Violate("C13 state differs from model",
					fmt.Sprintf("after %v: attesters=%v threshold=%d, model attesters=%v threshold=%d", descs(n.Path), shortAtts(got), thr, shortAtts(want), m.T), rp())
			}
		},
	}
	bfs.Explore(r)
}
