package main

// C07 -- outbound nonces are unique, consecutive and never reused.
// BFS over interleavings of succeeding and failing sends, sends-with-caller,
// deposits, deposits-with-caller and replacements from several start counters.

import (
	"encoding/hex"
	"fmt"

	"cosmossdk.io/math"

	cctptypes "github.com/circlefin/noble-cctp/x/cctp/types"

	"cctpmc/refcodec"
)

func init() {
	register(&Check{
		ID:    "C07",
		Level: "model_checking",
		Rule: "BFS (depth 6 quick / 12 thorough, sharded by first action) over {ok and failing send, send-with-caller failing before/after the reservation, deposit and deposit-with-caller incl. late failures after the burn, " +
			"replace-message, replace-deposit, pause/unpause} from start counters {0,7,2^32-1,2^64-2}; the k-th success must carry start+k-1 in response and emitted message, the query start+#successes in every state; " +
			"distinct_nontrivial counts distinct (start, #successes, transaction kind, outcome) tuples",
		Assumptions: []string{"nonce arithmetic is modulo 2^64", "originals for replacement are the MessageSent bytes the chain emitted, attested by the harness keys (honest attester)"},
		Jobs:        c07Jobs,
		Vacuity: func(m *Run) []string {
			if m.Classes["ok"] == 0 || m.Classes["error"] == 0 {
				return []string{"C07 vacuous"}
			}
			return nil
		},
	})
}

const c07Shards = 8

func c07Jobs(tier string) []Job {
	starts := []uint64{0, 7, 1<<32 - 1, 1<<64 - 2}
	depth := 6
	if tier == "thorough" {
		depth = 12
	}
	var jobs []Job
	for _, st := range starts {
		for sh := 0; sh < c07Shards; sh++ {
			st, sh := st, sh
			jobs = append(jobs, Job{Name: fmt.Sprintf("nonce-bfs-start%d-shard%d", st, sh), Run: func(r *Run) { c07Run(r, st, depth, sh) }})
		}
	}
	return jobs
}

type c07Model struct {
	K uint64 // successes so far
}

// env entries: "u:<hex>" first user message by UserA, "d:<hex>" first deposit by UserA
func envGet(env []string, tag string) []byte {
	for _, e := range env {
		if len(e) > 2 && e[:2] == tag+":" {
			b, _ := hex.DecodeString(e[2:])
			return b
		}
	}
	return nil
}

func envPut(env []string, tag string, b []byte) []string {
	if envGet(env, tag) != nil {
		return env
	}
	out := append(append([]string{}, env...), tag+":"+hex.EncodeToString(b))
	// keep sorted for canonical form
	for i := len(out) - 1; i > 0 && out[i] < out[i-1]; i-- {
		out[i], out[i-1] = out[i-1], out[i]
	}
	return out
}

func c07Run(r *Run, start uint64, depth, shard int) {
	g := BaseGenesis()
	g.NextAvailableNonce = &cctptypes.Nonce{Nonce: start}
	g.TokenMessengerList = append(g.TokenMessengerList, cctptypes.RemoteTokenMessenger{DomainId: 9, Address: make([]byte, 32)})
	scn := Scenario{Name: "c07", Ledger: BaseLedger(), Genesis: g}
	signers := Keys[0:2]
	long := make([]byte, 9000)

	bfs := &BFS{
		SeqDepth: 3,
		Scn:      scn, MaxDepth: depth, ValidatePaths: shard == 0, RootShard: shard, RootShards: c07Shards,
		Init: func(r *Run, w *World, root *Node) {
			root.Model, root.MKey = c07Model{}, "k=0"
		},
		Actions: func(n *Node, w *World) []Action {
			as := []Action{
				MkSend(UserA.Str, DomEth, distinct32(0x21), []byte("a")),
				MkSend(UserB.Str, DomEth, distinct32(0x21), long),        // fails after the reservation
				MkSend(UserB.Str, DomEth, make([]byte, 32), []byte("a")), // zero recipient: fails after the reservation
				MkSendWithCaller(UserB.Str, DomAvax, distinct32(0x21), []byte("b"), distinct32(0x22)),
				MkSendWithCaller(UserB.Str, DomAvax, distinct32(0x21), []byte("b"), make([]byte, 32)), // fails before the reservation
				MkSendWithCaller(UserB.Str, DomAvax, distinct32(0x21), long, distinct32(0x22)),        // fails after
				MkDeposit(UserA.Str, math.NewInt(5), DomEth, distinct32(0x24), "uusdc"),
				MkDeposit(UserA.Str, math.NewInt(0), DomEth, distinct32(0x24), "uusdc"), // early failure
				MkDeposit(UserA.Str, math.NewInt(5), 9, distinct32(0x24), "uusdc"),      // zero messenger: fails after burn and reservation
				MkDepositWithCaller(UserA.Str, math.NewInt(3), DomAvax, distinct32(0x24), "uusdc", distinct32(0x25)),
				MkDepositWithCaller(UserA.Str, math.NewInt(3), DomAvax, distinct32(0x24), "uusdc", distinct32(0x25)[:31]), // malformed caller: fails after the burn
				Act("pauseSendingAndReceiving by A2", &cctptypes.MsgPauseSendingAndReceivingMessages{From: Pauser.Str}),
				Act("unpauseSendingAndReceiving by A2", &cctptypes.MsgUnpauseSendingAndReceivingMessages{From: Pauser.Str}),
			}
			if u := envGet(n.Env, "u"); u != nil {
				att := Attest(u, signers)
				as = append(as,
					MkReplaceMessage(UserA.Str, u, att, []byte("replaced"), distinct32(0x23), "first user message"),
					MkReplaceMessage(UserB.Str, u, att, []byte("replaced"), distinct32(0x23), "first user message (not the sender)"))
			}
			if d := envGet(n.Env, "d"); d != nil {
				as = append(as, MkReplaceDeposit(UserA.Str, d, Attest(d, signers), distinct32(0x26), distinct32(0x27), "first deposit"))
			}
			return as
		},
		Step: func(r *Run, pre *Node, a Action, o Outcome, w *World, post *Node) bool {
			m := pre.Model.(c07Model)
			kind := handlerName(a.Type)
			rp := func(exp, obs string) Replay {
				x := scn.Replay("actions", post.Path)
				x.Expected, x.Observed = exp, obs
				return x
			}
			if o.Panicked {
				r.Violate("C07 panic "+kind, a.Desc+": "+o.PanicVal, rp("", ""))
				return false
			}
			sent := MessageSentOf(o.Events)
			next := m
			r.Distinct(fmt.Sprintf("%d|%d|%s|%s", start, m.K, kind, o.Class()))
			switch kind {
			case "SendMessage", "SendMessageWithCaller", "DepositForBurn", "DepositForBurnWithCaller":
				if o.OK {
					want := start + m.K
					var got uint64
					switch x := o.Resp.(type) {
					case *cctptypes.MsgSendMessageResponse:
						got = x.Nonce
					case *cctptypes.MsgSendMessageWithCallerResponse:
						got = x.Nonce
					case *cctptypes.MsgDepositForBurnResponse:
						got = x.Nonce
					case *cctptypes.MsgDepositForBurnWithCallerResponse:
						got = x.Nonce
					}
					if got != want {
						r.Violate("C07 response nonce is not start+#successes", fmt.Sprintf("%s: response nonce %d, expected %d (start %d, %d earlier successes)", a.Desc, got, want, start, m.K),
							rp(fmt.Sprint(want), fmt.Sprint(got)))
					}
					if len(sent) != 1 {
						r.Violate("C07 successful outbound transaction did not emit exactly one message", fmt.Sprintf("%s: %d MessageSent", a.Desc, len(sent)), rp("1", fmt.Sprint(len(sent))))
					} else if dm, err := refcodec.DecodeMessage(sent[0]); err != nil || dm.Nonce != want {
						r.Violate("C07 emitted message carries a different nonce than start+#successes", fmt.Sprintf("%s: emitted %s, expected nonce %d", a.Desc, refMsgStr(dm), want), rp(fmt.Sprint(want), refMsgStr(dm)))
					} else {
						if kind == "SendMessage" && envGet(pre.Env, "u") == nil && a.Desc == MkSend(UserA.Str, DomEth, distinct32(0x21), []byte("a")).Desc {
							post.Env = envPut(post.Env, "u", sent[0])
						}
						if kind == "DepositForBurn" {
							post.Env = envPut(post.Env, "d", sent[0])
						}
					}
					next.K = m.K + 1
				}
			case "ReplaceMessage", "ReplaceDepositForBurn":
				if o.OK {
					var orig []byte
					switch x := mustDecode(a).(type) {
					case *cctptypes.MsgReplaceMessage:
						orig = x.OriginalMessage
					case *cctptypes.MsgReplaceDepositForBurn:
						orig = x.OriginalMessage
					}
					om, _ := refcodec.DecodeMessage(orig)
					if len(sent) != 1 {
						r.Violate("C07 replacement did not emit exactly one message", a.Desc, rp("1", fmt.Sprint(len(sent))))
					} else if dm, err := refcodec.DecodeMessage(sent[0]); err != nil || dm.Nonce != om.Nonce {
						r.Violate("C07 replacement does not reuse the original nonce", fmt.Sprintf("%s: original nonce %d, replacement %s", a.Desc, om.Nonce, refMsgStr(dm)), rp(fmt.Sprint(om.Nonce), refMsgStr(dm)))
					}
				}
			default:
				if len(sent) != 0 {
					r.Violate("C07 message emitted by a non-sending transaction", a.Desc, rp("0", fmt.Sprint(len(sent))))
				}
			}
			post.Model, post.MKey = next, fmt.Sprintf("k=%d", next.K)
			// counter observable in every state
			want := start + next.K
			cctx, _ := w.ctx.CacheContext()
			q, err := w.K.NextAvailableNonce(cctx, &cctptypes.QueryGetNextAvailableNonceRequest{})
			if err != nil || q.Nonce.Nonce != want {
				got := "error"
				if err == nil {
					got = fmt.Sprint(q.Nonce.Nonce)
				}
				r.Violate("C07 next-available-nonce query differs from start+#successes",
					fmt.Sprintf("after %v (%s): query %s, expected %d", descs(post.Path), o.Class(), got, want), rp(fmt.Sprint(want), got))
			}
			if pre.Depth == 0 {
				r.Sample("step", map[string]any{"start": start, "successes_before": m.K, "tx": a.Desc, "observed": o.Class(), "counter_after": want})
			}
			return true
		},
	}
	bfs.Explore(r)
}

func mustDecode(a Action) any {
	m, err := a.Decode()
	if err != nil {
		panic(err)
	}
	return m
}
