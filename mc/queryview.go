package main

// Comparison of every gRPC query with a reference View (used by C19, C17).

import (
	"bytes"
	"encoding/hex"
	"fmt"
	"sort"
	"strings"

	"github.com/cosmos/cosmos-sdk/types/query"

	cctptypes "github.com/circlefin/noble-cctp/x/cctp/types"
)

type QUniverse struct {
	Attesters []string
	Denoms    []string
	Pairs     []struct {
		D uint32
		T []byte
	}
	Nonces  []noncePair
	Domains []uint32
}

func (u *QUniverse) addPair(d uint32, t []byte) {
	u.Pairs = append(u.Pairs, struct {
		D uint32
		T []byte
	}{d, t})
}

type pageFn func(req *query.PageRequest) (items []string, res *query.PageResponse, err error)

// checkPaged verifies that the list query returns every expected entry exactly
// once for every page size 1..n+1 in key mode (following next_key) and in
// offset mode (with count_total), and a correct total.
func checkPaged(name string, fn pageFn, expected []string) []string {
	var errs []string
	want := append([]string{}, expected...)
	sort.Strings(want)
	n := len(want)
	join := func(x []string) string {
		y := append([]string{}, x...)
		sort.Strings(y)
		return strings.Join(y, ",")
	}
	// unpaginated (nil request pagination)
	items, res0, err := fn(nil)
	if err != nil {
		return []string{fmt.Sprintf("%s list (no pagination): %v", name, err)}
	}
	// the SDK's default page holds 100 entries: a longer list continues under next_key
	for guard := 0; res0 != nil && len(res0.NextKey) > 0 && guard <= n; guard++ {
		more, r2, err := fn(&query.PageRequest{Key: res0.NextKey})
		if err != nil {
			return []string{fmt.Sprintf("%s list (default page, continued): %v", name, err)}
		}
		items = append(items, more...)
		res0 = r2
	}
	if join(items) != strings.Join(want, ",") || len(items) != n {
		errs = append(errs, fmt.Sprintf("%s list returns {%s}, expected {%s}", name, join(items), strings.Join(want, ",")))
		return errs
	}
	for size := 1; size <= n+1; size++ {
		// key mode
		var all []string
		var next []byte
		for guard := 0; guard <= n+2; guard++ {
			items, res, err := fn(&query.PageRequest{Key: next, Limit: uint64(size)})
			if err != nil {
				errs = append(errs, fmt.Sprintf("%s list key-mode size %d: %v", name, size, err))
				break
			}
			if len(items) > size {
				errs = append(errs, fmt.Sprintf("%s list key-mode size %d returned %d items", name, size, len(items)))
			}
			all = append(all, items...)
			if res == nil || len(res.NextKey) == 0 {
				break
			}
			next = res.NextKey
		}
		if join(all) != strings.Join(want, ",") || len(all) != n {
			errs = append(errs, fmt.Sprintf("%s list key-mode page size %d yields {%s}, expected each of {%s} exactly once", name, size, strings.Join(all, ","), strings.Join(want, ",")))
		}
		// offset mode
		all = nil
		for off := 0; off <= n; off += size {
			items, res, err := fn(&query.PageRequest{Offset: uint64(off), Limit: uint64(size), CountTotal: true})
			if err != nil {
				errs = append(errs, fmt.Sprintf("%s list offset-mode size %d offset %d: %v", name, size, off, err))
				break
			}
			if res == nil || res.Total != uint64(n) {
				t := uint64(0)
				if res != nil {
					t = res.Total
				}
				errs = append(errs, fmt.Sprintf("%s list offset-mode size %d offset %d reports total %d, expected %d", name, size, off, t, n))
			}
			all = append(all, items...)
		}
		if join(all) != strings.Join(want, ",") || len(all) != n {
			errs = append(errs, fmt.Sprintf("%s list offset-mode page size %d yields {%s}, expected each of {%s} exactly once", name, size, strings.Join(all, ","), strings.Join(want, ",")))
		}
		if len(errs) > 3 {
			break
		}
	}
	return errs
}

// CheckQueries compares all 19 queries with the reference view.
func CheckQueries(w *World, m View, u QUniverse) []string {
	var errs []string
	cctx, _ := w.ctx.CacheContext()
	k := w.K
	// --- scalars
	if r, err := k.Roles(cctx, &cctptypes.QueryRolesRequest{}); err != nil || r.Owner != m.Owner || r.AttesterManager != m.AttMgr || r.Pauser != m.Pauser || r.TokenController != m.TokenCtl {
		errs = append(errs, fmt.Sprintf("roles query %v err=%v, expected owner=%s attmgr=%s pauser=%s tokenctl=%s", r, err, m.Owner, m.AttMgr, m.Pauser, m.TokenCtl))
	}
	if r, err := k.BurningAndMintingPaused(cctx, &cctptypes.QueryGetBurningAndMintingPausedRequest{}); err != nil || r.Paused.Paused != m.BurnPaused {
		errs = append(errs, fmt.Sprintf("burning-and-minting-paused query %v err=%v, expected %v", r, err, m.BurnPaused))
	}
	if r, err := k.SendingAndReceivingMessagesPaused(cctx, &cctptypes.QueryGetSendingAndReceivingMessagesPausedRequest{}); err != nil || r.Paused.Paused != m.SendPaused {
		errs = append(errs, fmt.Sprintf("sending-and-receiving-paused query %v err=%v, expected %v", r, err, m.SendPaused))
	}
	if r, err := k.SignatureThreshold(cctx, &cctptypes.QueryGetSignatureThresholdRequest{}); err != nil || r.Amount.Amount != m.Threshold {
		errs = append(errs, fmt.Sprintf("signature-threshold query %v err=%v, expected %d", r, err, m.Threshold))
	}
	if r, err := k.MaxMessageBodySize(cctx, &cctptypes.QueryGetMaxMessageBodySizeRequest{}); err != nil || r.Amount.Amount != m.MaxBody {
		errs = append(errs, fmt.Sprintf("max-message-body-size query %v err=%v, expected %d", r, err, m.MaxBody))
	}
	if r, err := k.NextAvailableNonce(cctx, &cctptypes.QueryGetNextAvailableNonceRequest{}); err != nil || r.Nonce.Nonce != m.NextNonce {
		errs = append(errs, fmt.Sprintf("next-available-nonce query %v err=%v, expected %d", r, err, m.NextNonce))
	}
	if r, err := k.LocalDomain(cctx, &cctptypes.QueryLocalDomainRequest{}); err != nil || r.DomainId != 4 {
		errs = append(errs, fmt.Sprintf("local-domain query %v err=%v, expected 4", r, err))
	}
	if r, err := k.BurnMessageVersion(cctx, &cctptypes.QueryBurnMessageVersionRequest{}); err != nil || r.Version != 0 {
		errs = append(errs, fmt.Sprintf("burn-message-version query %v err=%v, expected 0", r, err))
	}
	if r, err := k.LocalMessageVersion(cctx, &cctptypes.QueryLocalMessageVersionRequest{}); err != nil || r.Version != 0 {
		errs = append(errs, fmt.Sprintf("local-message-version query %v err=%v, expected 0", r, err))
	}
	// --- single-item queries
	for _, a := range u.Attesters {
		r, err := k.Attester(cctx, &cctptypes.QueryGetAttesterRequest{Attester: a})
		if (err == nil) != m.hasAttester(a) || (err == nil && r.Attester.Attester != a) {
			errs = append(errs, fmt.Sprintf("attester query for %s: found=%v, expected %v", attName(a), err == nil, m.hasAttester(a)))
		}
	}
	for _, d := range u.Denoms {
		r, err := k.PerMessageBurnLimit(cctx, &cctptypes.QueryGetPerMessageBurnLimitRequest{Denom: d})
		want, have := m.Limits[d]
		if (err == nil) != have || (err == nil && (r.BurnLimit.Denom != d || r.BurnLimit.Amount.String() != want)) {
			errs = append(errs, fmt.Sprintf("burn-limit query for %q: found=%v %v, expected %v %s", d, err == nil, r, have, want))
		}
	}
	for _, p := range u.Pairs {
		want, have := m.Pairs[pairKey(p.D, p.T)]
		spellings := []string{hex.EncodeToString(p.T), "0x" + hex.EncodeToString(p.T), strings.ToUpper(hex.EncodeToString(p.T)), "0x" + strings.ToUpper(hex.EncodeToString(p.T))}
		if short := bytes.TrimLeft(p.T, "\x00"); len(short) < len(p.T) && len(short) > 0 {
			spellings = append(spellings, "0x"+hex.EncodeToString(short)) // left-padded on lookup
		}
		for _, spell := range spellings {
			r, err := k.TokenPair(cctx, &cctptypes.QueryGetTokenPairRequest{RemoteDomain: p.D, RemoteToken: spell})
			if (err == nil) != have || (err == nil && (r.Pair.LocalToken != want || r.Pair.RemoteDomain != p.D || hex.EncodeToString(r.Pair.RemoteToken) != hex.EncodeToString(p.T))) {
				errs = append(errs, fmt.Sprintf("token-pair query for %s: found=%v %v, expected %v %s", pairKey(p.D, p.T), err == nil, r, have, want))
			}
		}
	}
	// a 33-byte remote token names no entry, however it is spelled (a lookup that truncates or
	// re-pads it would find the entry of its last / first 32 bytes)
	for _, p := range u.Pairs {
		h := hex.EncodeToString(p.T)
		for _, spell := range []string{"ab" + h, "0xab" + h, h + "ab", "00" + h} {
			if r, err := k.TokenPair(cctx, &cctptypes.QueryGetTokenPairRequest{RemoteDomain: p.D, RemoteToken: spell}); err == nil {
				errs = append(errs, fmt.Sprintf("token-pair query for the 33-byte token %s (domain %d) found %v", spell, p.D, r))
			}
		}
	}
	for _, n := range u.Nonces {
		r, err := k.UsedNonce(cctx, &cctptypes.QueryGetUsedNonceRequest{SourceDomain: n.D, Nonce: n.N})
		if (err == nil) != m.Used[n.key()] || (err == nil && (r.Nonce.SourceDomain != n.D || r.Nonce.Nonce != n.N)) {
			errs = append(errs, fmt.Sprintf("used-nonce query for %s: found=%v, expected %v", n.key(), err == nil, m.Used[n.key()]))
		}
	}
	for _, d := range u.Domains {
		r, err := k.RemoteTokenMessenger(cctx, &cctptypes.QueryRemoteTokenMessengerRequest{DomainId: d})
		want, have := m.Messengers[d]
		if (err == nil) != have || (err == nil && (hex.EncodeToString(r.RemoteTokenMessenger.Address) != want || r.RemoteTokenMessenger.DomainId != d)) {
			errs = append(errs, fmt.Sprintf("remote-token-messenger query for %d: found=%v %v, expected %v %s", d, err == nil, r, have, want))
		}
	}
	// --- list queries
	errs = append(errs, checkPaged("attesters", func(req *query.PageRequest) ([]string, *query.PageResponse, error) {
		r, err := k.Attesters(cctx, &cctptypes.QueryAllAttestersRequest{Pagination: req})
		if err != nil {
			return nil, nil, err
		}
		var out []string
		for _, a := range r.Attesters {
			out = append(out, a.Attester)
		}
		return out, r.Pagination, nil
	}, m.Attesters)...)
	var wantLimits, wantPairs, wantMsgrs, wantUsed []string
	for d, a := range m.Limits {
		wantLimits = append(wantLimits, d+"="+a)
	}
	for p, l := range m.Pairs {
		wantPairs = append(wantPairs, p+"="+l)
	}
	for d, a := range m.Messengers {
		wantMsgrs = append(wantMsgrs, fmt.Sprintf("%d=%s", d, a))
	}
	for n := range m.Used {
		wantUsed = append(wantUsed, n)
	}
	errs = append(errs, checkPaged("burn-limits", func(req *query.PageRequest) ([]string, *query.PageResponse, error) {
		r, err := k.PerMessageBurnLimits(cctx, &cctptypes.QueryAllPerMessageBurnLimitsRequest{Pagination: req})
		if err != nil {
			return nil, nil, err
		}
		var out []string
		for _, a := range r.BurnLimits {
			out = append(out, a.Denom+"="+a.Amount.String())
		}
		return out, r.Pagination, nil
	}, wantLimits)...)
	errs = append(errs, checkPaged("token-pairs", func(req *query.PageRequest) ([]string, *query.PageResponse, error) {
		r, err := k.TokenPairs(cctx, &cctptypes.QueryAllTokenPairsRequest{Pagination: req})
		if err != nil {
			return nil, nil, err
		}
		var out []string
		for _, a := range r.TokenPairs {
			out = append(out, pairKey(a.RemoteDomain, a.RemoteToken)+"="+a.LocalToken)
		}
		return out, r.Pagination, nil
	}, wantPairs)...)
	errs = append(errs, checkPaged("remote-token-messengers", func(req *query.PageRequest) ([]string, *query.PageResponse, error) {
		r, err := k.RemoteTokenMessengers(cctx, &cctptypes.QueryRemoteTokenMessengersRequest{Pagination: req})
		if err != nil {
			return nil, nil, err
		}
		var out []string
		for _, a := range r.RemoteTokenMessengers {
			out = append(out, fmt.Sprintf("%d=%s", a.DomainId, hex.EncodeToString(a.Address)))
		}
		return out, r.Pagination, nil
	}, wantMsgrs)...)
	errs = append(errs, checkPaged("used-nonces", func(req *query.PageRequest) ([]string, *query.PageResponse, error) {
		r, err := k.UsedNonces(cctx, &cctptypes.QueryAllUsedNoncesRequest{Pagination: req})
		if err != nil {
			return nil, nil, err
		}
		var out []string
		for _, a := range r.UsedNonces {
			out = append(out, nonceKey(a.SourceDomain, a.Nonce))
		}
		return out, r.Pagination, nil
	}, wantUsed)...)
	return errs
}
