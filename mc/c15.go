package main

// C15 -- each transaction touches only the state it is documented to change.

import (
	"fmt"
	"math/big"
	"os"
	"path/filepath"
	"regexp"
	"sort"
	"strings"

	"cosmossdk.io/math"
	sdk "github.com/cosmos/cosmos-sdk/types"
	"github.com/cosmos/cosmos-sdk/types/query"

	"cctpmc/refcodec"

	cctptypes "github.com/circlefin/noble-cctp/x/cctp/types"
)

func init() {
	register(&Check{
		ID:    "C15",
		Level: "model_checking",
		Rule: "from 6 states (fresh, after traffic, send-paused, burn-paused, no attesters, single attester; additionally from every state one (quick) / up to three (thorough) successful transactions away from those) every transaction type is executed in its success path and in every failure branch (menu of ~130 requests incl. dependency faults and malformed submitters), " +
			"and all 19 queries + export are called; per call: the raw Set/Delete log of the store service handed to the keeper is classified with the repository's own key-prefix constants and must stay inside the documented classes/cardinality, " +
			"the typed diff (public view before/after) must equal exactly the entry the transaction names, the raw committed diff must have the same size as the typed diff, failed transactions / queries / export must leave the raw dump unchanged and issue no write at all (queries); " +
			"path census: every error-return site of keeper/msg_server_*.go (read from the current source) must be observed, known-unreachable sites are listed; distinct_nontrivial = distinct (state, request, outcome) triples",
		Assumptions: []string{"the 'statically for every code path' half is decided only for driven paths; the census measures which return sites were driven"},
		Jobs:        c15Jobs,
		Finalize:    c15Census,
		Vacuity: func(m *Run) []string {
			if m.Classes["ok"] == 0 || m.Classes["error"] == 0 || m.Classes["query"] == 0 {
				return []string{fmt.Sprintf("C15 vacuous: %v", m.Classes)}
			}
			return nil
		},
	})
}

var c15States = []string{"fresh", "after-traffic", "send-paused", "burn-paused", "no-attesters", "single-attester"}

const c15Shards = 3

func c15Jobs(tier string) []Job {
	var jobs []Job
	for _, s := range c15States {
		for sh := 0; sh < c15Shards; sh++ {
			s, sh := s, sh
			jobs = append(jobs, Job{Name: fmt.Sprintf("write-sets @%s shard%d", s, sh), Run: func(r *Run) { c15Run(r, s, sh) }})
		}
	}
	return jobs
}

// ---------------------------------------------------------------------------
// key classes (the repository's own constants)

func c15Class(k []byte) string {
	s := string(k)
	switch s {
	case string(cctptypes.OwnerKey):
		return "owner"
	case string(cctptypes.PendingOwnerKey):
		return "pending-owner"
	case string(cctptypes.AttesterManagerKey):
		return "attester-manager"
	case string(cctptypes.PauserKey):
		return "pauser"
	case string(cctptypes.TokenControllerKey):
		return "token-controller"
	}
	for name, p := range map[string]string{
		"Attester": cctptypes.AttesterKeyPrefix, "PerMessageBurnLimit": cctptypes.PerMessageBurnLimitKeyPrefix, "RemoteTokenMessenger": cctptypes.RemoteTokenMessengerKeyPrefix,
		"TokenPair": cctptypes.TokenPairKeyPrefix, "UsedNonce": cctptypes.UsedNonceKeyPrefix,
		"BurningAndMintingPaused": cctptypes.BurningAndMintingPausedKey, "MaxMessageBodySize": cctptypes.MaxMessageBodySizeKey, "NextAvailableNonce": cctptypes.NextAvailableNonceKey,
		"SendingAndReceivingMessagesPaused": cctptypes.SendingAndReceivingMessagesPausedKey, "SignatureThreshold": cctptypes.SignatureThresholdKey,
	} {
		if strings.HasPrefix(s, p) {
			return name
		}
	}
	return "UNKNOWN(" + printable(k) + ")"
}

// documented write set per transaction type: class -> max number of distinct keys
var c15Allowed = map[string]map[string]int{
	"ReceiveMessage":                     {"UsedNonce": 1},
	"SendMessage":                        {"NextAvailableNonce": 1},
	"SendMessageWithCaller":              {"NextAvailableNonce": 1},
	"DepositForBurn":                     {"NextAvailableNonce": 1},
	"DepositForBurnWithCaller":           {"NextAvailableNonce": 1},
	"ReplaceMessage":                     {},
	"ReplaceDepositForBurn":              {},
	"AcceptOwner":                        {"owner": 1, "pending-owner": 1},
	"UpdateOwner":                        {"pending-owner": 1},
	"UpdateAttesterManager":              {"attester-manager": 1},
	"UpdatePauser":                       {"pauser": 1},
	"UpdateTokenController":              {"token-controller": 1},
	"PauseBurningAndMinting":             {"BurningAndMintingPaused": 1},
	"UnpauseBurningAndMinting":           {"BurningAndMintingPaused": 1},
	"PauseSendingAndReceivingMessages":   {"SendingAndReceivingMessagesPaused": 1},
	"UnpauseSendingAndReceivingMessages": {"SendingAndReceivingMessagesPaused": 1},
	"UpdateMaxMessageBodySize":           {"MaxMessageBodySize": 1},
	"SetMaxBurnAmountPerMessage":         {"PerMessageBurnLimit": 1},
	"LinkTokenPair":                      {"TokenPair": 1},
	"UnlinkTokenPair":                    {"TokenPair": 1},
	"AddRemoteTokenMessenger":            {"RemoteTokenMessenger": 1},
	"RemoveRemoteTokenMessenger":         {"RemoteTokenMessenger": 1},
	"EnableAttester":                     {"Attester": 1},
	"DisableAttester":                    {"Attester": 1},
	"UpdateSignatureThreshold":           {"SignatureThreshold": 1},
}

// typedChanges counts the entries that differ between two views.
func typedChanges(a, b View) int {
	n := 0
	cmp := func(x, y any) {
		if fmt.Sprint(x) != fmt.Sprint(y) {
			n++
		}
	}
	cmp(a.Owner, b.Owner)
	cmp(fmt.Sprint(a.Pending, a.HasPending), fmt.Sprint(b.Pending, b.HasPending))
	cmp(a.AttMgr, b.AttMgr)
	cmp(a.Pauser, b.Pauser)
	cmp(a.TokenCtl, b.TokenCtl)
	cmp(a.Threshold, b.Threshold)
	cmp(a.BurnPaused, b.BurnPaused)
	cmp(a.SendPaused, b.SendPaused)
	cmp(a.MaxBody, b.MaxBody)
	cmp(a.NextNonce, b.NextNonce)
	setDiff := func(x, y map[string]string) {
		for k, v := range x {
			if w, ok := y[k]; !ok || w != v {
				n++
			}
		}
		for k := range y {
			if _, ok := x[k]; !ok {
				n++
			}
		}
	}
	toMap := func(l []string) map[string]string {
		m := map[string]string{}
		for _, s := range l {
			m[s] = "1"
		}
		return m
	}
	setDiff(toMap(a.Attesters), toMap(b.Attesters))
	setDiff(a.Limits, b.Limits)
	setDiff(a.Pairs, b.Pairs)
	ma, mb := map[string]string{}, map[string]string{}
	for d, x := range a.Messengers {
		ma[fmt.Sprint(d)] = x
	}
	for d, x := range b.Messengers {
		mb[fmt.Sprint(d)] = x
	}
	setDiff(ma, mb)
	ua, ub := map[string]string{}, map[string]string{}
	for k := range a.Used {
		ua[k] = "1"
	}
	for k := range b.Used {
		ub[k] = "1"
	}
	setDiff(ua, ub)
	return n
}

// viewEqual compares two views as sets/maps.
func viewEqual(a, b View) bool {
	x, y := a, b
	x.Attesters = append([]string{}, a.Attesters...)
	y.Attesters = append([]string{}, b.Attesters...)
	sort.Strings(x.Attesters)
	sort.Strings(y.Attesters)
	return x.String() == y.String()
}

// c15Setup is one of the six start states plus the full request menu.
type c15Setup struct {
	scn      Scenario
	pre      []Action
	w        *World
	base     []byte
	baseHash string
	view     View
	menu     []Action
}

func c15Build(r *Run, state string) *c15Setup {
	g := AdminGenesis()
	g.TokenPairList = append(g.TokenPairList, cctptypes.TokenPair{RemoteDomain: 7, RemoteToken: distinct32(0xC7), LocalToken: "uusdc"})  // linked pair without a messenger
	g.PerMessageBurnLimitList = append(g.PerMessageBurnLimitList, cctptypes.PerMessageBurnLimit{Denom: "uATOM", Amount: math.NewInt(5)}) // an entry only genesis can create (handlers lower-case)
	switch state {
	case "burn-paused":
		// an attester string only a genesis file can contain (decodes to zero bytes; the enable handler refuses it)
		g.AttesterList = append(append([]cctptypes.Attester{}, g.AttesterList...), cctptypes.Attester{Attester: "0x"})
	case "no-attesters":
		g.AttesterList = nil
	case "single-attester":
		g.AttesterList = g.AttesterList[:1]
		g.SignatureThreshold = &cctptypes.SignatureThreshold{Amount: 1}
	}
	lg := BaseLedger()
	scn := Scenario{Name: "c15", Ledger: lg, Genesis: g}
	w := scn.Build(KindDB)
	signers := Keys[0:2]
	if state == "single-attester" {
		signers = Keys[0:1]
	}
	var pre []Action
	do := func(a Action) Outcome {
		o := w.Apply(a)
		pre = append(pre, a)
		if !o.OK {
			panic(preambleFailed{fmt.Sprintf("%s: %s%s", a.Desc, o.Err, o.PanicVal)})
		}
		return o
	}
	sentOf := func(o Outcome) []byte {
		if ms := MessageSentOf(o.Events); len(ms) == 1 {
			return ms[0]
		}
		return make([]byte, 116)
	}
	origSend := sentOf(do(MkSendWithCaller(UserA.Str, DomEth, distinct32(0x21), []byte("own"), distinct32(0x22))))
	origDep := sentOf(do(MkDeposit(UserA.Str, math.NewInt(7), DomEth, distinct32(0x24), "uusdc")))
	switch state {
	case "after-traffic":
		in := InboundBurn(DomEth, 5, big.NewInt(9), pad32(UserB.Addr), nil)
		do(MkReceive(UserB.Str, in, Attest(in, signers), "burn(0,5,9)"))
		do(Act("setMaxBurnAmountPerMessage(uusdc,100) by A3", &cctptypes.MsgSetMaxBurnAmountPerMessage{From: TokenCtl.Str, LocalToken: "uusdc", Amount: math.NewInt(100)}))
		do(Act("disableAttester(K3) by A1", &cctptypes.MsgDisableAttester{From: AttMgr.Str, Attester: Keys[2].Hex}))
		do(Act("enableAttester(\"04\") by A1", &cctptypes.MsgEnableAttester{From: AttMgr.Str, Attester: "04"})) // a key string that is a strict prefix of the real keys
		do(Act("updateOwner(A5) by A0", &cctptypes.MsgUpdateOwner{From: Owner.Str, NewOwner: UserB.Str}))
		// one key under two spellings, the prefixed one first: two registry entries
		do(Act("enableAttester(0xK5) by A1", &cctptypes.MsgEnableAttester{From: AttMgr.Str, Attester: Keys[4].Spell(1)}))
		do(Act("enableAttester(K5) by A1", &cctptypes.MsgEnableAttester{From: AttMgr.Str, Attester: Keys[4].Hex}))
		do(Act("enableAttester(K6 upper case) by A1", &cctptypes.MsgEnableAttester{From: AttMgr.Str, Attester: Keys[5].Spell(2)})) // its lower-case spelling names no entry
	case "send-paused":
		do(Act("pauseSendingAndReceiving by A2", &cctptypes.MsgPauseSendingAndReceivingMessages{From: Pauser.Str}))
	case "burn-paused":
		do(Act("pauseBurningAndMinting by A2", &cctptypes.MsgPauseBurningAndMinting{From: Pauser.Str}))
	}
	base := w.Dump()
	baseHash := HashBytes(base)
	view := ViewOf(w)

	// ---- menu
	var menu []Action
	for _, tx := range AdminTxs {
		holder := map[Role]string{RoleOwner: Owner.Str, RoleAttMgr: AttMgr.Str, RolePauser: Pauser.Str, RoleTokenCtl: TokenCtl.Str, RolePending: UserB.Str}[tx.Role]
		menu = append(menu, tx.Make(holder), tx.Make(Outsider.Str))
	}
	bad := "garbage"
	attSend, attDep := Attest(origSend, signers), Attest(origDep, signers)
	inPlain := InboundPlain(DomEth, 60, []byte("p"), nil)
	inMint := InboundBurn(DomEth, 61, big.NewInt(3), pad32(Outsider.Addr), nil)
	inWrongDst := RefMsg(0, 0, 9, 62, distinct32(0x66), distinct32(0x77), Zero32, nil)
	inCaller := InboundPlain(DomEth, 63, nil, pad32(UserA.Addr))
	inV1 := RefMsg(1, 0, Noble, 64, distinct32(0x66), distinct32(0x77), Zero32, nil)
	inUsed := InboundPlain(DomEth, 5, nil, nil)
	inBodyV1 := RefMsg(0, 0, Noble, 65, RemoteMessenger0, PaddedModule, Zero32, RefBurn(1, RemoteToken0, pad32(Outsider.Addr), big.NewInt(3), distinct32(0x55)))
	inNoPair := RefMsg(0, 0, Noble, 66, RemoteMessenger0, PaddedModule, Zero32, RefBurn(0, distinct32(0xEE), pad32(Outsider.Addr), big.NewInt(3), distinct32(0x55)))
	inNoMsgr := RefMsg(0, 7, Noble, 67, RemoteMessenger0, PaddedModule, Zero32, RefBurn(0, distinct32(0xC7), pad32(Outsider.Addr), big.NewInt(3), distinct32(0x55)))
	inBadSender := RefMsg(0, 0, Noble, 68, distinct32(0x99), PaddedModule, Zero32, RefBurn(0, RemoteToken0, pad32(Outsider.Addr), big.NewInt(3), distinct32(0x55)))
	inShortBody := RefMsg(0, 0, Noble, 69, RemoteMessenger0, PaddedModule, Zero32, make([]byte, 131))
	foreign := RefMsg(0, DomEth, Noble, 3, pad32(UserA.Addr), distinct32(0x21), Zero32, []byte("elsewhere"))
	rcv := func(m []byte, what string) Action { return MkReceive(UserB.Str, m, Attest(m, signers), what) }
	menu = append(menu,
		// role updates with invalid holders
		Act("updateOwner(garbage) by A0", &cctptypes.MsgUpdateOwner{From: Owner.Str, NewOwner: bad}),
		Act("updateAttesterManager(garbage) by A0", &cctptypes.MsgUpdateAttesterManager{From: Owner.Str, NewAttesterManager: bad}),
		Act("updatePauser(garbage) by A0", &cctptypes.MsgUpdatePauser{From: Owner.Str, NewPauser: bad}),
		Act("updateTokenController(garbage) by A0", &cctptypes.MsgUpdateTokenController{From: Owner.Str, NewTokenController: bad}),
		Act("acceptOwner by A0 (not pending)", &cctptypes.MsgAcceptOwner{From: Owner.Str}),
		// registries: failure branches
		Act("addRemoteTokenMessenger(0) duplicate", &cctptypes.MsgAddRemoteTokenMessenger{From: Owner.Str, DomainId: DomEth, Address: distinct32(0xE0)}),
		Act("addRemoteTokenMessenger(8, 31 bytes)", &cctptypes.MsgAddRemoteTokenMessenger{From: Owner.Str, DomainId: 8, Address: distinct32(0xE0)[:31]}),
		Act("removeRemoteTokenMessenger(8) missing", &cctptypes.MsgRemoveRemoteTokenMessenger{From: Owner.Str, DomainId: 8}),
		Act("enableAttester(K1) duplicate", &cctptypes.MsgEnableAttester{From: AttMgr.Str, Attester: Keys[0].Hex}),
		Act("enableAttester(\"\")", &cctptypes.MsgEnableAttester{From: AttMgr.Str, Attester: ""}),
		Act("disableAttester(K6) unknown", &cctptypes.MsgDisableAttester{From: AttMgr.Str, Attester: Keys[5].Hex}),
		Act("disableAttester(\"0x\")", &cctptypes.MsgDisableAttester{From: AttMgr.Str, Attester: "0x"}),
		Act("disableAttester(K1)", &cctptypes.MsgDisableAttester{From: AttMgr.Str, Attester: Keys[0].Hex}),
		Act("disableAttester(\"04\")", &cctptypes.MsgDisableAttester{From: AttMgr.Str, Attester: "04"}),
		Act("enableAttester(\"0\")", &cctptypes.MsgEnableAttester{From: AttMgr.Str, Attester: "0"}),
		// a second spelling of an enabled key is another registry entry: each transaction touches only the entry it names
		Act("enableAttester(0xK1)", &cctptypes.MsgEnableAttester{From: AttMgr.Str, Attester: Keys[0].Spell(1)}),
		Act("disableAttester(0xK1)", &cctptypes.MsgDisableAttester{From: AttMgr.Str, Attester: Keys[0].Spell(1)}),
		Act("disableAttester(0xK2)", &cctptypes.MsgDisableAttester{From: AttMgr.Str, Attester: Keys[1].Spell(1)}),
		Act("disableAttester(0xK5)", &cctptypes.MsgDisableAttester{From: AttMgr.Str, Attester: Keys[4].Spell(1)}),
		Act("disableAttester(K5)", &cctptypes.MsgDisableAttester{From: AttMgr.Str, Attester: Keys[4].Hex}),
		Act("disableAttester(K6 lower case)", &cctptypes.MsgDisableAttester{From: AttMgr.Str, Attester: Keys[5].Hex}),
		Act("disableAttester(K2)", &cctptypes.MsgDisableAttester{From: AttMgr.Str, Attester: Keys[1].Hex}),
		Act("linkTokenPair(0,token0) duplicate", &cctptypes.MsgLinkTokenPair{From: TokenCtl.Str, RemoteDomain: DomEth, RemoteToken: RemoteToken0, LocalToken: "uatom"}),
		Act("linkTokenPair(5, 31 bytes)", &cctptypes.MsgLinkTokenPair{From: TokenCtl.Str, RemoteDomain: 5, RemoteToken: distinct32(0xF0)[:31], LocalToken: "uusdc"}),
		Act("unlinkTokenPair(5,F0) missing", &cctptypes.MsgUnlinkTokenPair{From: TokenCtl.Str, RemoteDomain: 5, RemoteToken: distinct32(0xF0)}),
		Act("unlinkTokenPair(0, 33 bytes)", &cctptypes.MsgUnlinkTokenPair{From: TokenCtl.Str, RemoteDomain: 0, RemoteToken: append(distinct32(0xF0), 1)}),
		Act("updateSignatureThreshold(0)", &cctptypes.MsgUpdateSignatureThreshold{From: AttMgr.Str, Amount: 0}),
		Act("updateSignatureThreshold(same)", &cctptypes.MsgUpdateSignatureThreshold{From: AttMgr.Str, Amount: view.Threshold}),
		Act("updateSignatureThreshold(9)", &cctptypes.MsgUpdateSignatureThreshold{From: AttMgr.Str, Amount: 9}),
		Act("updateSignatureThreshold(1)", &cctptypes.MsgUpdateSignatureThreshold{From: AttMgr.Str, Amount: 1}),
		// sends
		MkSend(UserA.Str, DomEth, distinct32(0x21), []byte("a")),
		MkSend(UserA.Str, DomEth, distinct32(0x21), make([]byte, 9001)),
		MkSend(UserA.Str, DomEth, make([]byte, 32), []byte("a")),
		MkSend(bad, DomEth, distinct32(0x21), []byte("a")),
		MkSendWithCaller(UserA.Str, DomEth, distinct32(0x21), []byte("a"), distinct32(0x22)),
		MkSendWithCaller(UserA.Str, DomEth, distinct32(0x21), []byte("a"), make([]byte, 32)),
		MkSendWithCaller(UserB.Str, 1<<32-1, distinct32(0x21), nil, distinct32(0x22)),
		MkSend(UserB.Str, 1<<32-1, distinct32(0x21), nil),
		MkSend(UserB.Str, 0, distinct32(0x21), make([]byte, 8000)),
		MkSendWithCaller(bad, DomEth, distinct32(0x21), []byte("a"), distinct32(0x22)),
		// deposits
		MkDeposit(UserA.Str, math.NewInt(5), DomEth, distinct32(0x24), "uusdc"),
		MkDeposit(UserA.Str, math.NewInt(0), DomEth, distinct32(0x24), "uusdc"),
		MkDeposit(UserA.Str, math.NewInt(5), DomEth, make([]byte, 32), "uusdc"),
		MkDeposit(UserA.Str, math.NewInt(5), 8, distinct32(0x24), "uusdc"),
		MkDeposit(UserA.Str, math.NewInt(5), DomEth, distinct32(0x24), "uatom"),
		MkDeposit(UserA.Str, math.NewInt(101), DomEth, distinct32(0x24), "uusdc"),
		MkDeposit(Outsider.Str, math.NewInt(5), DomEth, distinct32(0x24), "uusdc"),
		MkDeposit(UserA.Str, math.NewInt(5), DomEth, distinct32(0x24), "uusdc").WithFault(FaultNone, FaultBefore),
		MkDeposit(UserA.Str, math.NewInt(5), DomEth, distinct32(0x24)[:31], "uusdc"),
		MkDeposit(bad, math.NewInt(5), DomEth, distinct32(0x24), "uusdc"),
		MkDeposit(ShortAcct.Str, math.NewInt(2), DomEth, distinct32(0x24), "uusdc"), // a legal account address shorter than 20 bytes
		MkSend(ShortAcct.Str, DomEth, distinct32(0x21), []byte("s")),
		MkDepositWithCaller(UserA.Str, math.NewInt(5), DomAvax, distinct32(0x24), "uusdc", distinct32(0x25)),
		MkDepositWithCaller(UserA.Str, math.NewInt(5), DomAvax, distinct32(0x24), "uusdc", nil),
		MkDepositWithCaller(UserA.Str, math.NewInt(5), DomAvax, distinct32(0x24), "uusdc", distinct32(0x25)[:31]),
		// receives
		rcv(inPlain, "plain(0,60)"), rcv(inMint, "burn(0,61,3)"),
		MkReceive(UserB.Str, inPlain, Attest(inPlain, Keys[3:5]), "plain(0,60) bad attestation"),
		rcv(inWrongDst, "wrong destination"), rcv(inCaller, "caller=A submitted by B"), rcv(inV1, "version 1"), rcv(inUsed, "plain(0,5) maybe used"),
		rcv(inBodyV1, "burn body version 1"), rcv(inNoPair, "burn token not linked"), rcv(inNoMsgr, "pair linked, no messenger (domain 7)"),
		rcv(inBadSender, "sender is not the messenger"), rcv(inShortBody, "131-byte body to the module"), rcv(inPlain[:100], "100-byte message"),
		MkReceive(UserB.Str, inMint, Attest(inMint, signers), "burn(0,61,3) mint fails").WithFault(FaultBefore),
		// replacements
		MkReplaceMessage(UserA.Str, origSend, attSend, []byte("n"), distinct32(0x23), "own"),
		MkReplaceMessage(UserA.Str, origSend, Attest(origSend, Keys[3:5]), []byte("n"), distinct32(0x23), "own, bad attestation"),
		MkReplaceMessage(bad, origSend, attSend, []byte("n"), distinct32(0x23), "bad from"),
		MkReplaceMessage(UserB.Str, origSend, attSend, []byte("n"), distinct32(0x23), "not the sender"),
		MkReplaceMessage(UserA.Str, foreign, Attest(foreign, signers), []byte("n"), distinct32(0x23), "foreign domain"),
		MkReplaceMessage(UserA.Str, origSend[:100], Attest(origSend[:100], signers), []byte("n"), distinct32(0x23), "100-byte original"),
		MkReplaceDeposit(UserA.Str, origDep, attDep, distinct32(0x26), distinct32(0x27), "own"),
		MkReplaceDeposit(bad, origDep, attDep, distinct32(0x26), distinct32(0x27), "bad from"),
		MkReplaceDeposit(UserB.Str, origDep, attDep, distinct32(0x26), distinct32(0x27), "not the depositor"),
		MkReplaceDeposit(UserA.Str, origDep, attDep, distinct32(0x26), make([]byte, 32), "zero recipient"),
		MkReplaceDeposit(UserA.Str, origDep, attDep, distinct32(0x26), distinct32(0x27)[:31], "31-byte recipient"),
		MkReplaceDeposit(UserA.Str, origDep, Attest(origDep, Keys[3:5]), distinct32(0x26), distinct32(0x27), "bad attestation"),
		MkReplaceDeposit(UserA.Str, origSend, attSend, distinct32(0x26), distinct32(0x27), "original is not a burn message"),
		MkReplaceDeposit(UserA.Str, origDep[:100], attDep, distinct32(0x26), distinct32(0x27), "100-byte original"),
	)

	return &c15Setup{scn: scn, pre: pre, w: w, base: base, baseHash: baseHash, view: view, menu: menu}
}

func c15Run(r *Run, state string, shard int) {
	su := c15Build(r, state)
	observed := map[string]any{}
	if shard == 0 {
		c15From(r, su, state, su.pre, su.base, observed)
	}
	// non-initial states: the whole menu again from every state one (quick) or up to three (thorough)
	// successful transactions away; the first transaction is sharded over jobs
	depth := 1
	if r.Tier == "thorough" {
		depth = 3
	}
	seen := map[string]bool{su.baseHash: true}
	var expand func(label string, pre []Action, base []byte, d int)
	expand = func(label string, pre []Action, base []byte, d int) {
		for i, a := range su.menu {
			if d == depth && i%c15Shards != shard {
				continue
			}
			if r.Expired() {
				r.Truncate("C15 deadline in expansion @" + state)
				return
			}
			su.w.Load(base)
			if o := su.w.Apply(a); !o.OK {
				continue
			}
			nd := su.w.Dump()
			h := HashBytes(nd)
			if seen[h] {
				continue
			}
			seen[h] = true
			np := append(append([]Action{}, pre...), a)
			c15From(r, su, label+" + "+a.Desc, np, nd, observed)
			if d > 1 {
				expand(label+" + "+a.Desc, np, nd, d-1)
			}
		}
	}
	expand(state, su.pre, su.base, depth)
	r.Extra["observed_errors"] = observed
}

// c15From runs the whole menu, and all queries, from one start state.
func c15From(r *Run, su *c15Setup, state string, pre []Action, base []byte, observed map[string]any) {
	scn, w, menu := su.scn, su.w, su.menu
	baseHash := HashBytes(base)
	w.Load(base)
	view := ViewOf(w)
	r.States++
	for _, a := range menu {
		w.Load(base)
		p := Predict(w, view, a)
		o := w.Apply(a)
		r.Transitions++
		r.Class(o.Class())
		kind := handlerName(a.Type)
		r.Distinct(fmt.Sprintf("%s|%s|%s", state, a.Desc, o.Class()))
		path := append(append([]Action{}, pre...), a)
		rp := func(exp, obs string) Replay {
			x := scn.Replay("actions", path)
			x.Expected, x.Observed = exp, obs
			return x
		}
		if o.Panicked {
			continue // C20's subject
		}
		if !o.OK {
			observed[kind+"|"+o.Err] = 1
		}
		// (1) raw write log inside the documented classes
		allowed, known := c15Allowed[kind]
		if !known {
			r.HarnessError("no documented write set for %s", kind)
			continue
		}
		keys := map[string]map[string]bool{}
		for _, op := range o.Writes {
			c := c15Class(op.Key)
			if keys[c] == nil {
				keys[c] = map[string]bool{}
			}
			keys[c][string(op.Key)] = true
		}
		for c, ks := range keys {
			if strings.HasPrefix(c, "UNKNOWN(") {
				// a raw key under none of the prefixes this check knows: the store layout differs from the
				// one the classification was written for. Not a verdict -- the write set is then judged by
				// (3) alone: typed diff == named entry and raw diff size == typed diff size.
				r.Truncate("C15: raw store keys outside the known key prefixes (store layout changed?); write classes not judged, typed/raw diff still is")
				continue
			}
			if max, ok := allowed[c]; !ok || len(ks) > max {
				r.Violate(fmt.Sprintf("C15 %s writes outside its documented state: %s", kind, c),
					fmt.Sprintf("[%s] %s (%s): wrote %d key(s) of class %s; documented classes %v", state, a.Desc, o.Class(), len(ks), c, allowed), rp(fmt.Sprint(allowed), c))
			}
		}
		post := w.Dump()
		// (2) failed transaction: nothing committed
		if !o.OK {
			if HashBytes(post) != baseHash {
				r.Violate("C15 failed transaction changed state: "+kind, fmt.Sprintf("%s: %v", a.Desc, DiffDumps(base, post)), rp("", ""))
			}
			continue
		}
		// (3) success: typed diff is exactly the named entry; raw diff has the same size
		postView := ViewOf(w)
		if bad := c15OutsideNamedKey(&a, view, postView); bad != "" {
			r.Violate("C15 "+kind+" changed a registry entry other than the one it names", fmt.Sprintf("[%s] %s: %s", state, a.Desc, bad), rp("only the named entry", bad))
			continue
		}
		if p.Exp != MustFail && !viewEqual(postView, p.Next) {
			r.Violate("C15 "+kind+" changed other (or not exactly the named) public state",
				fmt.Sprintf("[%s] %s:\n after    %s\n expected %s", state, a.Desc, postView, p.Next), rp(p.Next.String(), postView.String()))
			continue
		}
		rawDiff := 0
		for _, d := range DiffDumps(base, post) {
			if strings.Contains(d, cctptypes.StoreKey+":") {
				rawDiff++
			}
		}
		if tc := typedChanges(view, postView); tc != rawDiff {
			r.Violate("C15 "+kind+" changed stored keys that are invisible in the public state",
				fmt.Sprintf("[%s] %s: %d raw keys changed %v, %d typed entries changed", state, a.Desc, rawDiff, DiffDumps(base, post), tc), rp(fmt.Sprint(tc), fmt.Sprint(rawDiff)))
		}
		if len(r.Samples) < 3 {
			var ws []string
			for _, op := range o.Writes {
				ws = append(ws, op.Op+" "+c15Class(op.Key))
			}
			r.Sample("write-set", map[string]any{"state": state, "tx": a.Desc, "raw_ops": ws})
		}
	}
	// ---- queries and export: no write at all
	w.Load(base)
	pr := &query.PageRequest{Limit: 2, CountTotal: true}
	qs := map[string]func(ctx sdk.Context) error{
		"Roles": func(c sdk.Context) error { _, e := w.K.Roles(c, &cctptypes.QueryRolesRequest{}); return e },
		"Attester": func(c sdk.Context) error {
			_, e := w.K.Attester(c, &cctptypes.QueryGetAttesterRequest{Attester: Keys[0].Hex})
			return e
		},
		"Attesters": func(c sdk.Context) error {
			_, e := w.K.Attesters(c, &cctptypes.QueryAllAttestersRequest{Pagination: pr})
			return e
		},
		"PerMessageBurnLimit": func(c sdk.Context) error {
			_, e := w.K.PerMessageBurnLimit(c, &cctptypes.QueryGetPerMessageBurnLimitRequest{Denom: "uusdc"})
			return e
		},
		"PerMessageBurnLimit(uatom)": func(c sdk.Context) error {
			_, e := w.K.PerMessageBurnLimit(c, &cctptypes.QueryGetPerMessageBurnLimitRequest{Denom: "uatom"})
			return e
		},
		"PerMessageBurnLimit(uATOM)": func(c sdk.Context) error {
			_, e := w.K.PerMessageBurnLimit(c, &cctptypes.QueryGetPerMessageBurnLimitRequest{Denom: "uATOM"})
			return e
		},
		"PerMessageBurnLimits": func(c sdk.Context) error {
			_, e := w.K.PerMessageBurnLimits(c, &cctptypes.QueryAllPerMessageBurnLimitsRequest{Pagination: pr})
			return e
		},
		"BurningAndMintingPaused": func(c sdk.Context) error {
			_, e := w.K.BurningAndMintingPaused(c, &cctptypes.QueryGetBurningAndMintingPausedRequest{})
			return e
		},
		"SendingAndReceivingMessagesPaused": func(c sdk.Context) error {
			_, e := w.K.SendingAndReceivingMessagesPaused(c, &cctptypes.QueryGetSendingAndReceivingMessagesPausedRequest{})
			return e
		},
		"MaxMessageBodySize": func(c sdk.Context) error {
			_, e := w.K.MaxMessageBodySize(c, &cctptypes.QueryGetMaxMessageBodySizeRequest{})
			return e
		},
		"NextAvailableNonce": func(c sdk.Context) error {
			_, e := w.K.NextAvailableNonce(c, &cctptypes.QueryGetNextAvailableNonceRequest{})
			return e
		},
		"SignatureThreshold": func(c sdk.Context) error {
			_, e := w.K.SignatureThreshold(c, &cctptypes.QueryGetSignatureThresholdRequest{})
			return e
		},
		"TokenPair": func(c sdk.Context) error {
			_, e := w.K.TokenPair(c, &cctptypes.QueryGetTokenPairRequest{RemoteDomain: 0, RemoteToken: fmt.Sprintf("%x", RemoteToken0)})
			return e
		},
		"TokenPairs": func(c sdk.Context) error {
			_, e := w.K.TokenPairs(c, &cctptypes.QueryAllTokenPairsRequest{Pagination: pr})
			return e
		},
		"UsedNonce": func(c sdk.Context) error {
			_, e := w.K.UsedNonce(c, &cctptypes.QueryGetUsedNonceRequest{SourceDomain: 0, Nonce: 5})
			return e
		},
		"UsedNonces": func(c sdk.Context) error {
			_, e := w.K.UsedNonces(c, &cctptypes.QueryAllUsedNoncesRequest{Pagination: pr})
			return e
		},
		"RemoteTokenMessenger": func(c sdk.Context) error {
			_, e := w.K.RemoteTokenMessenger(c, &cctptypes.QueryRemoteTokenMessengerRequest{DomainId: 0})
			return e
		},
		"RemoteTokenMessengers": func(c sdk.Context) error {
			_, e := w.K.RemoteTokenMessengers(c, &cctptypes.QueryRemoteTokenMessengersRequest{Pagination: pr})
			return e
		},
		"BurnMessageVersion": func(c sdk.Context) error {
			_, e := w.K.BurnMessageVersion(c, &cctptypes.QueryBurnMessageVersionRequest{})
			return e
		},
		"LocalMessageVersion": func(c sdk.Context) error {
			_, e := w.K.LocalMessageVersion(c, &cctptypes.QueryLocalMessageVersionRequest{})
			return e
		},
		"LocalDomain":   func(c sdk.Context) error { _, e := w.K.LocalDomain(c, &cctptypes.QueryLocalDomainRequest{}); return e },
		"ExportGenesis": func(c sdk.Context) error { w.ExportCCTP(); return nil },
	}
	for _, name := range sortedKeys(qs) {
		w.Rec.Ops = nil
		var pv any
		func() {
			defer func() { pv = recover() }()
			qs[name](w.ctx) // on the root context: a write would be visible in the dump
		}()
		r.Transitions++
		r.Class("query")
		r.Distinct(state + "|query " + name)
		if pv != nil {
			continue // C20's subject
		}
		after := w.Dump()
		if len(w.Rec.Ops) != 0 || HashBytes(after) != baseHash {
			var ws []string
			for _, op := range w.Rec.Ops {
				ws = append(ws, op.Op+" "+c15Class(op.Key))
			}
			x := scn.Replay("actions", pre)
			x.Data = map[string]any{"query": name}
			r.Violate("C15 query or export writes to the store: "+name, fmt.Sprintf("[%s] %s issued %v; dump diff %v", state, name, ws, DiffDumps(base, after)), x)
			w.Load(base)
		}
	}
}

// ---------------------------------------------------------------------------
// path census

var c15Unreachable = map[string]string{
	"msg_server_receive_message.go|signature threshold not found":                "InitGenesis always writes a threshold and no transaction deletes it",
	"msg_server_replace_message.go|signature threshold not found":                "InitGenesis always writes a threshold and no transaction deletes it",
	"msg_server_disable_attester.go|signature threshold not set":                 "InitGenesis always writes a threshold and no transaction deletes it",
	"msg_server_receive_message.go|unable to encode destination caller ":         "bech32 encoding of 20 bytes cannot fail",
	"msg_server_receive_message.go|error bech32 encoding mint recipient address": "bech32 encoding of 20 bytes cannot fail",
	"msg_server_receive_message.go|error emitting mint event":                    "typed-event emission of a well-formed proto cannot fail",
}

func c15UnreachableWhy(id string) string {
	for k, why := range c15Unreachable {
		if strings.HasPrefix(id, k) {
			return why
		}
	}
	return ""
}

func snake(s string) string {
	var sb strings.Builder
	for i, c := range s {
		if c >= 'A' && c <= 'Z' {
			if i > 0 {
				sb.WriteByte('_')
			}
			sb.WriteRune(c + 32)
		} else {
			sb.WriteRune(c)
		}
	}
	return sb.String()
}

// files whose error sites a transaction type can end in
func c15Files(kind string) []string {
	own := "msg_server_" + snake(kind) + ".go"
	switch kind {
	case "DepositForBurn":
		return []string{own, "msg_server_send_message.go", "msg_server_send_message_with_caller.go"}
	case "DepositForBurnWithCaller":
		return []string{own, "msg_server_deposit_for_burn.go", "msg_server_send_message.go", "msg_server_send_message_with_caller.go"}
	case "ReplaceDepositForBurn":
		return []string{own, "msg_server_replace_message.go", "msg_server_send_message.go"}
	case "ReplaceMessage", "SendMessageWithCaller":
		return []string{own, "msg_server_send_message.go"}
	}
	return []string{own}
}

func c15Census(m *Run) {
	repo := os.Getenv("VERIF_REPO")
	if repo == "" {
		repo = "/repo"
	}
	files, _ := filepath.Glob(filepath.Join(repo, "x/cctp/keeper/msg_server_*.go"))
	re := regexp.MustCompile(`(?s)Wrapf?\(\s*[\w.]+,\s*"((?:[^"\\]|\\.)*)"`)
	type site struct{ file, msg string }
	var sites []site
	for _, f := range files {
		if strings.HasSuffix(f, "_test.go") {
			continue
		}
		src, err := os.ReadFile(f)
		if err != nil {
			continue
		}
		for _, mm := range re.FindAllStringSubmatch(string(src), -1) {
			msg := mm[1]
			if i := strings.Index(msg, "%"); i >= 0 {
				msg = msg[:i]
			}
			sites = append(sites, site{filepath.Base(f), msg})
		}
	}
	obs, _ := m.Extra["observed_errors"].(map[string]any)
	delete(m.Extra, "observed_errors")
	var undriven, unreachable []string
	driven := 0
	for _, s := range sites {
		hit := false
		for k := range obs {
			parts := strings.SplitN(k, "|", 2)
			okFile := false
			for _, f := range c15Files(parts[0]) {
				if f == s.file {
					okFile = true
				}
			}
			if okFile && strings.Contains(parts[1], s.msg) {
				hit = true
				break
			}
		}
		id := s.file + "|" + s.msg
		switch {
		case hit:
			driven++
		case c15UnreachableWhy(id) != "":
			unreachable = append(unreachable, id+" -- "+c15UnreachableWhy(id))
		default:
			undriven = append(undriven, id)
		}
	}
	m.Extra["census_error_return_sites"] = len(sites)
	m.Extra["census_sites_driven"] = driven
	m.Extra["census_sites_known_unreachable"] = unreachable
	m.Extra["census_sites_undriven"] = undriven
	if len(sites) == 0 {
		m.HarnessErrors = append(m.HarnessErrors, "C15 census found no error-return sites in "+repo)
	}
	for _, u := range undriven {
		m.Truncate("C15 census: error-return site not driven by the alphabet: " + u)
	}
}

// c15OutsideNamedKey: which registry entries differ between two views, and are they all the
// entry the transaction names?  Independent of any prediction of success or failure.
func c15OutsideNamedKey(a *Action, pre, post View) string {
	changed := map[string][]string{}
	setDiffKeys := func(reg string, x, y map[string]string) {
		for k, v := range x {
			if w, ok := y[k]; !ok || w != v {
				changed[reg] = append(changed[reg], k)
			}
		}
		for k := range y {
			if _, ok := x[k]; !ok {
				changed[reg] = append(changed[reg], k)
			}
		}
	}
	toSet := func(xs []string) map[string]string {
		m := map[string]string{}
		for _, x := range xs {
			m[x] = "1"
		}
		return m
	}
	boolSet := func(x map[string]bool) map[string]string {
		m := map[string]string{}
		for k, v := range x {
			if v {
				m[k] = "1"
			}
		}
		return m
	}
	msgr := func(x map[uint32]string) map[string]string {
		m := map[string]string{}
		for k, v := range x {
			m[fmt.Sprint(k)] = v
		}
		return m
	}
	setDiffKeys("attesters", toSet(pre.Attesters), toSet(post.Attesters))
	setDiffKeys("limits", pre.Limits, post.Limits)
	setDiffKeys("pairs", pre.Pairs, post.Pairs)
	setDiffKeys("messengers", msgr(pre.Messengers), msgr(post.Messengers))
	setDiffKeys("used", boolSet(pre.Used), boolSet(post.Used))
	allowed := map[string]map[string]bool{}
	allow := func(reg string, keys ...string) {
		if allowed[reg] == nil {
			allowed[reg] = map[string]bool{}
		}
		for _, k := range keys {
			allowed[reg][k] = true
		}
	}
	if msg, err := a.Decode(); err == nil {
		switch x := msg.(type) {
		case *cctptypes.MsgEnableAttester:
			allow("attesters", x.Attester)
		case *cctptypes.MsgDisableAttester:
			allow("attesters", x.Attester)
		case *cctptypes.MsgSetMaxBurnAmountPerMessage:
			allow("limits", x.LocalToken, strings.ToLower(x.LocalToken))
		case *cctptypes.MsgLinkTokenPair:
			allow("pairs", pairKey(x.RemoteDomain, x.RemoteToken))
		case *cctptypes.MsgUnlinkTokenPair:
			allow("pairs", pairKey(x.RemoteDomain, x.RemoteToken))
		case *cctptypes.MsgAddRemoteTokenMessenger:
			allow("messengers", fmt.Sprint(x.DomainId))
		case *cctptypes.MsgRemoveRemoteTokenMessenger:
			allow("messengers", fmt.Sprint(x.DomainId))
		case *cctptypes.MsgReceiveMessage:
			if m, err := refcodec.DecodeMessage(x.Message); err == nil {
				allow("used", nonceKey(m.SourceDomain, m.Nonce))
			}
		}
	}
	var bad []string
	for reg, ks := range changed {
		for _, k := range ks {
			if !allowed[reg][k] {
				if reg == "attesters" {
					k = attName(k)
				}
				bad = append(bad, reg+":"+k)
			}
		}
	}
	sort.Strings(bad)
	return strings.Join(bad, ", ")
}
