package main

// Exploration drivers and bookkeeping: Run (per-worker statistics), BFS over
// real transactions, violation/replay artefacts.

import (
	"encoding/json"
	"fmt"
	"os"
	"path/filepath"
	"sort"
	"strings"
	"time"

	cctptypes "github.com/circlefin/noble-cctp/x/cctp/types"
)

// ---------------------------------------------------------------------------
// Replay artefact

type Replay struct {
	Property    string          `json:"property"`
	Fingerprint string          `json:"fingerprint"`
	Detail      string          `json:"detail"`
	Job         string          `json:"job"`
	Kind        string          `json:"kind"` // actions | verify | codec | genesis | parseaddr | query | schedule
	Ledger      *LedgerGenesis  `json:"ledger,omitempty"`
	Genesis     json.RawMessage `json:"genesis,omitempty"` // cctp genesis (proto JSON)
	Actions     []Action        `json:"actions,omitempty"`
	Data        map[string]any  `json:"data,omitempty"`
	Expected    string          `json:"expected,omitempty"`
	Observed    string          `json:"observed,omitempty"`
}

func GenesisJSON(g cctptypes.GenesisState) json.RawMessage {
	bz, err := theCodec().MarshalJSON(&g)
	if err != nil {
		panic(err)
	}
	return bz
}

type Violation struct {
	Fingerprint string `json:"fingerprint"`
	Detail      string `json:"detail"`
	Replay      Replay `json:"replay"`
}

// ---------------------------------------------------------------------------
// Run: what one worker accumulates

type Run struct {
	Property string
	Tier     string
	Seed     int64
	Shard    int
	NShards  int
	Deadline time.Time
	Job      string

	States        int                 `json:"states"`
	Transitions   int                 `json:"transitions"`
	Evaluations   int                 `json:"evaluations"`
	PathsReplayed int                 `json:"paths_replayed"`
	Classes       map[string]int      `json:"classes"`
	DistinctKeys  map[string]struct{} `json:"-"`
	Samples       []any               `json:"samples"`
	Violations    []Violation         `json:"violations"`
	Truncated     []string            `json:"truncated"` // reasons the run is not exhaustive
	Bounds        map[string]any      `json:"bounds"`
	Notes         []string            `json:"notes"`
	JobsRun       []string            `json:"jobs_run"`
	HarnessErrors []string            `json:"harness_errors"`
	Extra         map[string]any      `json:"extra"`
	violSeen      map[string]int
	violTotal     int
	sampleSeen    map[string]int
}

func NewRun(prop, tier string, seed int64, shard, nshards int, deadline time.Time) *Run {
	return &Run{Property: prop, Tier: tier, Seed: seed, Shard: shard, NShards: nshards, Deadline: deadline,
		Classes: map[string]int{}, DistinctKeys: map[string]struct{}{}, Bounds: map[string]any{},
		Extra: map[string]any{}, violSeen: map[string]int{}, sampleSeen: map[string]int{}}
}

func (r *Run) addExtra(k string, n int) {
	old, _ := r.Extra[k].(int)
	r.Extra[k] = old + n
}

func (r *Run) boundMax(k string, n int) {
	if old, ok := r.Bounds[k].(int); !ok || n > old {
		r.Bounds[k] = n
	}
}

func (r *Run) boundMin(k string, n int) {
	if old, ok := r.Bounds[k].(int); !ok || n < old {
		r.Bounds[k] = n
	}
}

func (r *Run) Expired() bool { return time.Now().After(r.Deadline) }

func (r *Run) Truncate(reason string) {
	for _, t := range r.Truncated {
		if t == reason {
			return
		}
	}
	r.Truncated = append(r.Truncated, reason)
}

func (r *Run) Class(c string)    { r.Classes[c]++ }
func (r *Run) Distinct(k string) { r.DistinctKeys[k] = struct{}{} }
func (r *Run) Note(s string)     { r.Notes = append(r.Notes, s) }
func (r *Run) HarnessError(format string, a ...any) {
	r.HarnessErrors = append(r.HarnessErrors, r.Job+": "+fmt.Sprintf(format, a...))
}

// Sample keeps at most two samples per kind.
func (r *Run) Sample(kind string, v any) {
	if r.sampleSeen[kind] >= 2 || len(r.Samples) >= 24 {
		return
	}
	r.sampleSeen[kind]++
	r.Samples = append(r.Samples, map[string]any{"kind": kind, "job": r.Job, "case": v})
}

// Violate records a violation; at most 3 replays are kept per fingerprint.
func (r *Run) Violate(fp, detail string, rp Replay) {
	r.violSeen[fp]++
	if !isKnownFingerprint(r.Property, fp) {
		r.violTotal++
	}
	if r.violSeen[fp] > 3 {
		return
	}
	rp.Property, rp.Fingerprint, rp.Detail, rp.Job = r.Property, fp, detail, r.Job
	r.Violations = append(r.Violations, Violation{Fingerprint: fp, Detail: detail, Replay: rp})
}

// ---------------------------------------------------------------------------
// Scenario: how to rebuild a starting world

type Scenario struct {
	Name    string
	Ledger  LedgerGenesis
	Genesis cctptypes.GenesisState
}

func (s Scenario) Build(kind StoreKind) *World {
	return NewBaseWorld(kind, s.Ledger, s.Genesis)
}

func (s Scenario) Replay(kind string, actions []Action) Replay {
	lg := s.Ledger
	acts := make([]Action, len(actions))
	copy(acts, actions)
	return Replay{Kind: kind, Ledger: &lg, Genesis: GenesisJSON(s.Genesis), Actions: acts}
}

// ---------------------------------------------------------------------------
// BFS

type Node struct {
	Dump  []byte
	Env   []string // harness environment (sorted), part of the state
	Model any      // reference model state (must be determined by Dump+Env+MKey)
	MKey  string   // model component of the state key
	Path  []Action
	Depth int
}

func (n *Node) Key() string {
	return HashBytes(n.Dump, []byte(strings.Join(n.Env, "\x00")), []byte(n.MKey))
}

type BFS struct {
	Scn       Scenario
	MaxDepth  int
	MaxStates int
	// Init prepares the root node (model, env) from the freshly built world.
	Init func(r *Run, w *World, root *Node)
	// Actions lists the menu for a node (world is loaded with the node's state).
	Actions func(n *Node, w *World) []Action
	// Step is the step oracle. pre is the source node, w is the world *after*
	// applying a; post is pre-filled with Dump; Step fills post.Env/Model/MKey.
	// Returning false prunes the successor.
	Step func(r *Run, pre *Node, a Action, o Outcome, w *World, post *Node) bool
	// State is the invariant, evaluated once per distinct state (world loaded).
	State func(r *Run, n *Node, w *World)
	// ValidatePaths: replay each discovered state's path on a fresh IAVL world.
	ValidatePaths bool
	// Root sharding: at depth 0 only the actions with index % RootShards == RootShard
	// are expanded (the subtrees below are explored completely by this job).
	RootShard, RootShards int
	// SeqDepth > 0 adds a faithful sequential leg: every action sequence of that length
	// from the root is executed on ONE world from genesis without any restore, so that the
	// keeper object has seen exactly the transactions of the path (failed ones included) --
	// as on a node. The same Step/State oracles judge the last step of every sequence.
	SeqDepth int
}

// Explore runs the BFS; returns number of distinct states.
func (b *BFS) Explore(r *Run) int {
	w := b.Scn.Build(KindDB)
	root := &Node{Dump: w.Dump()}
	if b.Init != nil {
		b.Init(r, w, root) // may run a preamble of real transactions (recorded in root.Path)
		root.Dump = w.Dump()
	}
	seen := map[string]struct{}{root.Key(): {}}
	frontier := []*Node{root}
	var all []*Node
	if b.ValidatePaths {
		all = append(all, root)
	}
	r.States++
	if b.State != nil {
		b.State(r, root, w)
	}
	maxStates := b.MaxStates
	if maxStates == 0 {
		maxStates = 400000
	}
	completedDepth := 0
	closed := false
	for depth := 0; depth < b.MaxDepth && len(frontier) > 0; depth++ {
		var next []*Node
		for _, n := range frontier {
			if r.Expired() {
				r.Truncate(fmt.Sprintf("%s: deadline during BFS depth %d (complete to depth %d)", r.Job, depth+1, completedDepth))
				goto done
			}
			if r.violTotal > 200 {
				r.Truncate(fmt.Sprintf("%s: stopped after %d violations (depth %d)", r.Job, r.violTotal, depth+1))
				goto done
			}
			w.Load(n.Dump)
			acts := b.Actions(n, w)
			for ai, a := range acts {
				if depth == 0 && b.RootShards > 1 && ai%b.RootShards != b.RootShard {
					continue
				}
				w.Load(n.Dump)
				o := w.Apply(a)
				r.Transitions++
				r.Class(o.Class())
				post := &Node{Dump: w.Dump(), Env: n.Env, Model: n.Model, MKey: n.MKey, Depth: n.Depth + 1}
				post.Path = append(append([]Action{}, n.Path...), a)
				keep := true
				if b.Step != nil {
					keep = b.Step(r, n, a, o, w, post)
				}
				if !keep {
					continue
				}
				k := post.Key()
				if _, ok := seen[k]; ok {
					continue
				}
				seen[k] = struct{}{}
				r.States++
				if b.State != nil {
					b.State(r, post, w)
				}
				next = append(next, post)
				if b.ValidatePaths {
					all = append(all, post)
				}
				if len(seen) >= maxStates {
					r.Truncate(fmt.Sprintf("%s: state cap %d reached at depth %d", r.Job, maxStates, depth+1))
					goto done
				}
			}
		}
		frontier = next
		completedDepth = depth + 1
		if len(next) == 0 {
			closed = true
		}
	}
done:
	r.addExtra("bfs_runs", 1)
	if closed {
		r.addExtra("bfs_runs_closed", 1)
	}
	r.boundMax("max_bfs_depth_completed", completedDepth)
	r.boundMin("min_bfs_depth_completed", completedDepth)
	r.boundMax("max_bfs_states_per_run", len(seen))
	if b.ValidatePaths {
		b.validate(r, all)
	}
	if b.SeqDepth > 0 && r.violTotal < 200 {
		b.sequentialLeg(r)
	}
	return len(seen)
}

// sequentialLeg: stateless enumeration of all action sequences up to SeqDepth.
func (b *BFS) sequentialLeg(r *Run) {
	scratch := NewRun(r.Property, r.Tier, r.Seed, r.Shard, r.NShards, r.Deadline)
	var rec func(prefix []Action)
	count := 0
	rec = func(prefix []Action) {
		if r.Expired() {
			r.Truncate(r.Job + ": deadline during the sequential leg")
			return
		}
		// re-execute the prefix on a fresh world, judging only the last step with the real Run
		w := b.Scn.Build(KindDB)
		node := &Node{Dump: w.Dump()}
		if b.Init != nil {
			b.Init(scratch, w, node)
			node.Dump = w.Dump()
		}
		var acts []Action
		for i, a := range prefix {
			last := i == len(prefix)-1
			rr := scratch
			if last {
				rr = r
			}
			o := w.Apply(a)
			post := &Node{Dump: w.Dump(), Env: node.Env, Model: node.Model, MKey: node.MKey, Depth: node.Depth + 1}
			post.Path = append(append([]Action{}, node.Path...), a)
			keep := true
			if b.Step != nil {
				keep = b.Step(rr, node, a, o, w, post)
			}
			if last {
				r.Transitions++
				r.Class(o.Class())
				count++
			}
			if !keep {
				return
			}
			if b.State != nil && last {
				// the live world: observations see the keeper that executed this very path (State
				// hooks that probe do so after a Load, which is fine -- this world is not reused)
				b.State(rr, post, w)
			}
			node = post
		}
		if len(prefix) == b.SeqDepth {
			return
		}
		// the menu at this node (needs a world loaded with the node's state; use the live one)
		acts = b.Actions(node, w)
		for ai, a := range acts {
			if len(prefix) == 0 && b.RootShards > 1 && ai%b.RootShards != b.RootShard {
				continue
			}
			rec(append(append([]Action{}, prefix...), a))
		}
	}
	rec(nil)
	r.addExtra("sequential_leg_sequences", count)
	r.boundMax("max_sequential_leg_depth", b.SeqDepth)
}

// validate re-derives states by path replay from genesis on IAVL and compares dumps.
func (b *BFS) validate(r *Run, all []*Node) {
	stride := 1
	if len(all) > 4000 {
		stride = len(all)/4000 + 1
	}
	for i := 0; i < len(all); i += stride {
		if r.Expired() {
			r.Truncate(r.Job + ": deadline during path-replay validation")
			return
		}
		n := all[i]
		w := b.Scn.Build(KindIAVL)
		for _, a := range n.Path {
			w.Apply(a)
		}
		if HashBytes(w.Dump()) != HashBytes(n.Dump) {
			r.HarnessError("path replay diverged from restored state at depth %d: %v", n.Depth, DiffDumps(n.Dump, w.Dump()))
			return
		}
		r.PathsReplayed++
	}
}

// ---------------------------------------------------------------------------
// misc helpers

func descs(as []Action) []string {
	out := make([]string, len(as))
	for i, a := range as {
		out[i] = a.Desc
	}
	return out
}

func sortedKeys[V any](m map[string]V) []string {
	ks := make([]string, 0, len(m))
	for k := range m {
		ks = append(ks, k)
	}
	sort.Strings(ks)
	return ks
}

func writeJSON(path string, v any) error {
	bz, err := json.MarshalIndent(v, "", " ")
	if err != nil {
		return err
	}
	if err := os.MkdirAll(filepath.Dir(path), 0o755); err != nil {
		return err
	}
	tmp := path + ".tmp"
	if err := os.WriteFile(tmp, bz, 0o644); err != nil {
		return err
	}
	return os.Rename(tmp, path)
}
