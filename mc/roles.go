package main

// C10 (privileged actions require the matching role) and C11 (role lifecycle).
// Phase 1 enumerates, by BFS over the real role-update handlers, every
// assignment of the four roles and the pending slot over a universe U.
// Phase 2 (sharded by state) applies, in every such state, the full menu.

import (
	"bytes"
	"fmt"

	"cosmossdk.io/math"
	sdk "github.com/cosmos/cosmos-sdk/types"
	sdkbech32 "github.com/cosmos/cosmos-sdk/types/bech32"

	cctptypes "github.com/circlefin/noble-cctp/x/cctp/types"
)

type rolesModel struct {
	Owner, AttMgr, Pauser, TokenCtl, Pending string
	HasPending                               bool
}

func (m rolesModel) key() string {
	return fmt.Sprintf("o=%s p=%s(%v) a=%s pa=%s t=%s", acctName(m.Owner), acctName(m.Pending), m.HasPending, acctName(m.AttMgr), acctName(m.Pauser), acctName(m.TokenCtl))
}

func (m rolesModel) holder(r Role) (string, bool) {
	switch r {
	case RoleOwner:
		return m.Owner, true
	case RoleAttMgr:
		return m.AttMgr, true
	case RolePauser:
		return m.Pauser, true
	case RoleTokenCtl:
		return m.TokenCtl, true
	case RolePending:
		return m.Pending, m.HasPending
	}
	return "", false
}

func rolesOfView(v View) rolesModel {
	return rolesModel{Owner: v.Owner, AttMgr: v.AttMgr, Pauser: v.Pauser, TokenCtl: v.TokenCtl, Pending: v.Pending, HasPending: v.HasPending}
}

func rolesUniverse(tier string) []Account {
	if tier == "thorough" {
		return Accts[0:5]
	}
	return Accts[0:3]
}

func rolesScenario(U []Account) Scenario {
	g := AdminGenesis()
	g.Owner, g.AttesterManager, g.Pauser = U[0].Str, U[1].Str, U[2].Str
	g.TokenController = U[len(U)-1].Str
	lg := BaseLedger()
	for _, a := range U {
		lg.Balances[a.Str] = "1000"
	}
	return Scenario{Name: "roles", Ledger: lg, Genesis: g}
}

// validAddr: a syntactically valid account address for this chain.
func validAddr(s string) bool {
	_, err := sdk.AccAddressFromBech32(s)
	return err == nil
}

// roleStep is the lifecycle automaton. It returns the expectation and the
// successor model if the transaction succeeds.
func roleStep(m rolesModel, msg any) (Expect, rolesModel, bool) {
	n := m
	switch x := msg.(type) {
	case *cctptypes.MsgUpdateOwner:
		n.Pending, n.HasPending = x.NewOwner, true
		switch {
		case x.From != m.Owner:
			return MustFail, n, true
		case !validAddr(x.NewOwner):
			return Either, n, true // the statement restricts only the other three roles to valid addresses
		}
		return MustSucceed, n, true
	case *cctptypes.MsgAcceptOwner:
		n.Owner, n.Pending, n.HasPending = m.Pending, "", false
		if !m.HasPending || x.From != m.Pending {
			return MustFail, n, true
		}
		return MustSucceed, n, true
	case *cctptypes.MsgUpdateAttesterManager:
		n.AttMgr = x.NewAttesterManager
		return roleUpd(m, x.From, x.NewAttesterManager), n, true
	case *cctptypes.MsgUpdatePauser:
		n.Pauser = x.NewPauser
		return roleUpd(m, x.From, x.NewPauser), n, true
	case *cctptypes.MsgUpdateTokenController:
		n.TokenCtl = x.NewTokenController
		return roleUpd(m, x.From, x.NewTokenController), n, true
	}
	return Either, m, false
}

func roleUpd(m rolesModel, from, nw string) Expect {
	if from != m.Owner || !validAddr(nw) {
		return MustFail
	}
	return MustSucceed
}

func mkRoleUpdates(from string, news []string) []Action {
	var as []Action
	f := acctName(from)
	for _, n := range news {
		nn := acctName(n)
		if len(nn) > 14 {
			nn = fmt.Sprintf("%q", n)
		}
		as = append(as,
			Act(fmt.Sprintf("updateOwner(%s) by %s", nn, f), &cctptypes.MsgUpdateOwner{From: from, NewOwner: n}),
			Act(fmt.Sprintf("updateAttesterManager(%s) by %s", nn, f), &cctptypes.MsgUpdateAttesterManager{From: from, NewAttesterManager: n}),
			Act(fmt.Sprintf("updatePauser(%s) by %s", nn, f), &cctptypes.MsgUpdatePauser{From: from, NewPauser: n}),
			Act(fmt.Sprintf("updateTokenController(%s) by %s", nn, f), &cctptypes.MsgUpdateTokenController{From: from, NewTokenController: n}),
		)
	}
	as = append(as, Act("acceptOwner by "+f, &cctptypes.MsgAcceptOwner{From: from}))
	return as
}

// enumRoleStates: phase 1. Authorised, valid role updates only.
func enumRoleStates(r *Run, prop string, scn Scenario, U []Account, count bool) []*Node {
	strict := prop == "C11" // the lifecycle itself is C11's subject; C10 only needs the set of role states
	var states []*Node
	var news []string
	for _, a := range U {
		news = append(news, a.Str)
	}
	s0, t0, p0 := r.States, r.Transitions, r.PathsReplayed
	cls := map[string]int{}
	for k, v := range r.Classes {
		cls[k] = v
	}
	bfs := &BFS{
		Scn: scn, MaxDepth: 64, ValidatePaths: count,
		Init: func(r *Run, w *World, root *Node) {
			m := rolesOfView(ViewOf(w))
			root.Model, root.MKey = m, m.key()
		},
		Actions: func(n *Node, w *World) []Action {
			m := n.Model.(rolesModel)
			as := mkRoleUpdates(m.Owner, news)
			as = as[:len(as)-1] // accept by owner is not an authorised action in general
			if m.HasPending {
				as = append(as, Act("acceptOwner by "+acctName(m.Pending), &cctptypes.MsgAcceptOwner{From: m.Pending}))
			}
			return as
		},
		Step: func(r *Run, pre *Node, a Action, o Outcome, w *World, post *Node) bool {
			m := pre.Model.(rolesModel)
			msg, _ := a.Decode()
			exp, next, _ := roleStep(m, msg)
			if exp == MustSucceed && !o.OK && strict {
				rp := scn.Replay("actions", post.Path)
				rp.Expected, rp.Observed = "MUST_SUCCEED", o.Class()+" "+o.Err
				r.Violate(prop+" authorised role change rejected: "+handlerName(a.Type),
					fmt.Sprintf("in %s: %s -> %s %s", m.key(), a.Desc, o.Class(), o.Err), rp)
			}
			if !o.OK {
				return false
			}
			if !strict {
				next = rolesOfView(ViewOf(w)) // follow the implementation
			}
			post.Model, post.MKey = next, next.key()
			return true
		},
		State: func(r *Run, n *Node, w *World) {
			m := n.Model.(rolesModel)
			got := rolesOfView(ViewOf(w))
			if got != m && strict {
				r.Violate(prop+" roles differ from lifecycle model",
					fmt.Sprintf("after %v: implementation %s, model %s", descs(n.Path), got.key(), m.key()), scn.Replay("actions", n.Path))
			}
			states = append(states, n)
		},
	}
	bfs.Explore(r)
	if !count {
		r.States, r.Transitions, r.PathsReplayed = s0, t0, p0
		r.Classes = cls
	}
	return states
}

// ---------------------------------------------------------------------------
// C10

func init() {
	register(&Check{
		ID:    "C10",
		Level: "model_checking",
		Rule: "phase 1: BFS over the real role-update/accept handlers enumerates every assignment of the 4 roles + pending slot over U (|U|=3 quick, 5 thorough); " +
			"phase 2: in every such state each of the 18 privileged transaction types (role updates with every account of U and an outsider as the new holder) is submitted by every account of U and by an outsider; " +
			"distinct_nontrivial counts distinct (role state, transaction type, submitter) triples whose submitter holds some role or is the previous holder",
		Assumptions: []string{"submitter strings are canonical bech32 (what a signer field can contain)", "parameters of the probes are valid in the fixed base configuration, so an authorised submission must succeed"},
		Jobs:        func(tier string) []Job { return rolesJobs("C10", tier, c10Phase2) },
		Vacuity: func(m *Run) []string {
			if m.Classes["ok"] == 0 || m.Classes["error"] == 0 {
				return []string{"C10 vacuous: need both authorised successes and unauthorised rejections"}
			}
			return nil
		},
	})
	register(&Check{
		ID:    "C11",
		Level: "model_checking",
		Rule: "phase 1 as C10; phase 2: in every role state every role-update and accept transaction with new holder in U + {\"\", garbage, wrong-prefix, validator-operator prefix, bad-checksum} by every submitter, " +
			"stepped in lockstep with the lifecycle automaton, successors must stay inside the enumerated closed set; plus every unrelated transaction type as a probe (roles must not move); " +
			"distinct_nontrivial counts distinct (role state, transaction, outcome) triples",
		Assumptions: []string{"an invalid new *owner* string is EITHER (the statement restricts only the other three roles to valid addresses)"},
		Jobs:        func(tier string) []Job { return rolesJobs("C11", tier, c11Phase2) },
		Vacuity: func(m *Run) []string {
			if m.Classes["ok"] == 0 || m.Classes["error"] == 0 {
				return []string{"C11 vacuous"}
			}
			return nil
		},
	})
}

const rolesShards = 16

func rolesJobs(prop, tier string, phase2 func(r *Run, scn Scenario, U []Account, states []*Node, known map[string]bool, shard int)) []Job {
	U := rolesUniverse(tier)
	var jobs []Job
	for s := 0; s < rolesShards; s++ {
		s := s
		jobs = append(jobs, Job{Name: fmt.Sprintf("role-states-shard-%d", s), Run: func(r *Run) {
			scn := rolesScenario(U)
			states := enumRoleStates(r, prop, scn, U, s == 0)
			want := len(U) * len(U) * len(U) * len(U) * (len(U) + 1)
			if s == 0 {
				r.Bounds["role_states"] = len(states)
				r.Bounds["role_states_expected"] = want
				if len(states) != want {
					if prop == "C11" {
						r.HarnessError("expected %d role states, enumerated %d", want, len(states))
					} else {
						r.Truncate(fmt.Sprintf("only %d of %d role states are reachable on this tree (the lifecycle is C11's subject)", len(states), want))
					}
				}
			}
			known := map[string]bool{}
			for _, n := range states {
				known[n.Model.(rolesModel).key()] = true
			}
			phase2(r, scn, U, states, known, s)
		}})
	}
	return jobs
}

func c10Phase2(r *Run, scn Scenario, U []Account, states []*Node, known map[string]bool, shard int) {
	w := scn.Build(KindDB)
	subs := append(append([]Account{}, U...), Outsider)
	for _, u := range U { // different accounts that share bytes with a holder: 32 bytes ending in, 8 bytes beginning, the holder's address
		long := sdk.AccAddress(append(bytes.Repeat([]byte{0xAB}, 12), u.Addr...))
		short := sdk.AccAddress(append([]byte{}, u.Addr[:8]...))
		subs = append(subs, Account{Name: u.Name + "+12B", Addr: long, Str: long.String()}, Account{Name: u.Name + "[:8]", Addr: short, Str: short.String()})
		// ... and the other way round (round 6, C10r6-1): 32 and 21 bytes BEGINNING with the holder's 20, and the holder's last 8
		tail := sdk.AccAddress(append(append([]byte{}, u.Addr...), bytes.Repeat([]byte{0xCD}, 12)...))
		plus1 := sdk.AccAddress(append(append([]byte{}, u.Addr...), 0x00))
		last := sdk.AccAddress(append([]byte{}, u.Addr[len(u.Addr)-8:]...))
		subs = append(subs, Account{Name: u.Name + "..12B", Addr: tail, Str: tail.String()}, Account{Name: u.Name + "..00", Addr: plus1, Str: plus1.String()},
			Account{Name: u.Name + "[12:]", Addr: last, Str: last.String()})
	}
	for i, n := range states {
		if i%rolesShards != shard {
			continue
		}
		if r.Expired() {
			r.Truncate("C10 phase 2 deadline")
			return
		}
		m := n.Model.(rolesModel)
		// the catalogue, plus every role update with every account of the universe as the new holder
		txs := append([]AdminTx{}, AdminTxs...)
		for _, nu := range U {
			nu := nu
			txs = append(txs,
				AdminTx{"UpdateOwner", RoleOwner, func(f string) Action {
					return Act("updateOwner("+nu.Name+") by "+acctName(f), &cctptypes.MsgUpdateOwner{From: f, NewOwner: nu.Str})
				}},
				AdminTx{"UpdateAttesterManager", RoleOwner, func(f string) Action {
					return Act("updateAttesterManager("+nu.Name+") by "+acctName(f), &cctptypes.MsgUpdateAttesterManager{From: f, NewAttesterManager: nu.Str})
				}},
				AdminTx{"UpdatePauser", RoleOwner, func(f string) Action {
					return Act("updatePauser("+nu.Name+") by "+acctName(f), &cctptypes.MsgUpdatePauser{From: f, NewPauser: nu.Str})
				}},
				AdminTx{"UpdateTokenController", RoleOwner, func(f string) Action {
					return Act("updateTokenController("+nu.Name+") by "+acctName(f), &cctptypes.MsgUpdateTokenController{From: f, NewTokenController: nu.Str})
				}})
		}
		for _, tx := range txs {
			holder, has := m.holder(tx.Role)
			for _, s := range subs {
				a := tx.Make(s.Str)
				w.Load(n.Dump)
				o := w.Apply(a)
				r.Transitions++
				r.Class(o.Class())
				post := w.Dump()
				auth := has && holder == s.Str
				path := append(append([]Action{}, n.Path...), a)
				holdsOther := s.Str == m.Owner || s.Str == m.AttMgr || s.Str == m.Pauser || s.Str == m.TokenCtl || (m.HasPending && s.Str == m.Pending)
				if holdsOther || auth {
					r.Distinct(fmt.Sprintf("%s|%s|%s", m.key(), a.Desc, s.Name))
				}
				switch {
				case o.Panicked:
					r.Violate("C10 panic "+tx.Name, a.Desc+": "+o.PanicVal, scn.Replay("actions", path))
				case !auth && o.OK:
					rp := scn.Replay("actions", path)
					rp.Expected, rp.Observed = "MUST_FAIL (submitter does not hold "+tx.Role.String()+")", "ok"
					r.Violate(fmt.Sprintf("C10 %s accepted from non-holder of %s", tx.Name, tx.Role),
						fmt.Sprintf("roles %s: %s succeeded although %s is held by %s", m.key(), a.Desc, tx.Role, acctName(holder)), rp)
				case !auth && HashBytes(post) != HashBytes(n.Dump):
					r.Violate("C10 rejected privileged transaction changed state: "+tx.Name,
						fmt.Sprintf("%s: %v", a.Desc, DiffDumps(n.Dump, post)), scn.Replay("actions", path))
				case auth && !o.OK:
					// the statement is one-directional ("only when submitted by the holder"); a holder being
					// refused has some other cause (parameters, another property) and is only recorded
					r.Truncate("C10: " + tx.Name + " was refused for the holder of " + tx.Role.String() + " in some role state; authorisation of that type is judged only through the non-holders")
				}
				if i < 2 && tx.Name == "PauseBurningAndMinting" {
					r.Sample("probe", map[string]any{"roles": m.key(), "tx": a.Desc, "authorised": auth, "observed": o.Class()})
				}
			}
		}
	}
}

// ---------------------------------------------------------------------------
// C11

func c11Invalid() []string {
	// wrong-prefix bech32 of a real 20-byte address, and a noble address with a broken checksum
	wrong, err := sdk.Bech32ifyAddressBytes("cosmos", Accts[0].Addr)
	if err != nil {
		panic(err)
	}
	bad := []byte(Accts[1].Str)
	if bad[len(bad)-1] == 'q' {
		bad[len(bad)-1] = 'p'
	} else {
		bad[len(bad)-1] = 'q'
	}
	valoper, err := sdk.Bech32ifyAddressBytes(Bech32Prefix+"valoper", Accts[2].Addr) // prefix merely *starts with* the account prefix
	if err != nil {
		panic(err)
	}
	emptyPayload, _ := sdk.Bech32ifyAddressBytes(Bech32Prefix, []byte{}) // valid prefix and checksum, no address bytes
	if emptyPayload == "" {
		emptyPayload = "noble1" // Bech32ifyAddressBytes refuses empty input; build the string directly
		if s, err := bech32Encode(Bech32Prefix, []byte{}); err == nil {
			emptyPayload = s
		}
	}
	huge, _ := bech32Encode(Bech32Prefix, bytes.Repeat([]byte{7}, 300)) // longer than any address the SDK accepts
	return []string{"", "garbage", wrong, string(bad), valoper, emptyPayload, huge, Accts[1].Str + "\n", " " + Accts[2].Str, Accts[0].Str + " "}
}

// unrelatedTxs: one transaction of every non-role kind (valid parameters).
func unrelatedTxs(from string) []Action {
	var as []Action
	for _, tx := range AdminTxs {
		switch tx.Name {
		case "UpdateOwner", "UpdateAttesterManager", "UpdatePauser", "UpdateTokenController", "AcceptOwner":
			continue
		}
		as = append(as, tx.Make(from))
	}
	as = append(as,
		MkSend(from, DomEth, distinct32(0x11), []byte("hello")),
		MkSendWithCaller(from, DomEth, distinct32(0x11), []byte("hello"), distinct32(0x12)),
		MkDeposit(from, math.NewInt(5), DomEth, distinct32(0x13), "uusdc"),
		MkDepositWithCaller(from, math.NewInt(5), DomEth, distinct32(0x13), "uusdc", distinct32(0x14)),
	)
	in := InboundPlain(DomEth, 9, []byte("x"), nil)
	as = append(as, MkReceive(from, in, Attest(in, Keys[0:2]), "plain(0,9)"))
	return as
}

func c11Phase2(r *Run, scn Scenario, U []Account, states []*Node, known map[string]bool, shard int) {
	w := scn.Build(KindDB)
	subs := append(append([]Account{}, U...), Outsider)
	var news []string
	for _, a := range U {
		news = append(news, a.Str)
	}
	news = append(news, c11Invalid()...)
	for i, n := range states {
		if i%rolesShards != shard {
			continue
		}
		if r.Expired() {
			r.Truncate("C11 phase 2 deadline")
			return
		}
		m := n.Model.(rolesModel)
		for _, s := range subs {
			for _, a := range mkRoleUpdates(s.Str, news) {
				w.Load(n.Dump)
				o := w.Apply(a)
				r.Transitions++
				r.Class(o.Class())
				msg, _ := a.Decode()
				exp, next, _ := roleStep(m, msg)
				path := append(append([]Action{}, n.Path...), a)
				r.Distinct(fmt.Sprintf("%s|%s|%s", m.key(), a.Desc, o.Class()))
				if o.Panicked {
					r.Violate("C11 panic "+handlerName(a.Type), a.Desc+": "+o.PanicVal, scn.Replay("actions", path))
					continue
				}
				if (exp == MustFail && o.OK) || (exp == MustSucceed && !o.OK) {
					rp := scn.Replay("actions", path)
					rp.Expected, rp.Observed = exp.String(), o.Class()+" "+o.Err
					r.Violate(fmt.Sprintf("C11 %s expected %s got %s", handlerName(a.Type), exp, o.Class()),
						fmt.Sprintf("roles %s: %s -> %s %s", m.key(), a.Desc, o.Class(), o.Err), rp)
				}
				if !o.OK {
					next = m
				}
				got := rolesOfView(ViewOf(w))
				if got != next {
					rp := scn.Replay("actions", path)
					rp.Expected, rp.Observed = next.key(), got.key()
					r.Violate("C11 roles differ from lifecycle model after "+handlerName(a.Type),
						fmt.Sprintf("roles %s: %s (%s) -> implementation %s, model %s", m.key(), a.Desc, o.Class(), got.key(), next.key()), rp)
				} else if exp != Either && !known[next.key()] {
					r.HarnessError("successor %s of %s outside the enumerated closure", next.key(), m.key())
				}
				if i == 0 && s.Str == m.Owner {
					r.Sample("role-tx", map[string]any{"roles": m.key(), "tx": a.Desc, "expected": exp.String(), "observed": o.Class()})
				}
			}
			for _, a := range unrelatedTxs(s.Str) {
				w.Load(n.Dump)
				o := w.Apply(a)
				r.Transitions++
				r.Class(o.Class())
				got := rolesOfView(ViewOf(w))
				if got != m {
					path := append(append([]Action{}, n.Path...), a)
					rp := scn.Replay("actions", path)
					rp.Expected, rp.Observed = m.key(), got.key()
					r.Violate("C11 unrelated transaction altered a role: "+handlerName(a.Type),
						fmt.Sprintf("roles %s: %s (%s) -> %s", m.key(), a.Desc, o.Class(), got.key()), rp)
				}
			}
		}
	}
}

func bech32Encode(prefix string, data []byte) (string, error) {
	return sdkbech32.ConvertAndEncode(prefix, data)
}
