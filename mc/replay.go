package main

// `cctpmc replay <file>`: re-executes a violation artefact sequentially on a
// fresh world, without the explorer.

import (
	"encoding/json"
	"fmt"
	"os"

	cctptypes "github.com/circlefin/noble-cctp/x/cctp/types"
)

func loadReplay(path string) (*Replay, error) {
	bz, err := os.ReadFile(path)
	if err != nil {
		return nil, err
	}
	var rp Replay
	if err := json.Unmarshal(bz, &rp); err != nil {
		return nil, err
	}
	return &rp, nil
}

func (rp *Replay) World(kind StoreKind) (*World, error) {
	var g cctptypes.GenesisState
	if err := theCodec().UnmarshalJSON(rp.Genesis, &g); err != nil {
		return nil, err
	}
	lg := DefaultLedger()
	if rp.Ledger != nil {
		lg = *rp.Ledger
	}
	return NewBaseWorld(kind, lg, g), nil
}

// replayers for non-action kinds are registered by the property files.
var replayers = map[string]func(rp *Replay) int{}

func runReplay(path string) int {
	rp, err := loadReplay(path)
	if err != nil {
		fmt.Fprintln(os.Stderr, err)
		return 2
	}
	fmt.Printf("property=%s fingerprint=%s kind=%s\n detail: %s\n expected: %s\n observed(at detection): %s\n",
		rp.Property, rp.Fingerprint, rp.Kind, rp.Detail, rp.Expected, rp.Observed)
	if f, ok := replayers[rp.Kind]; ok {
		return f(rp)
	}
	if rp.Kind != "actions" {
		fmt.Println("no sequential replayer for kind", rp.Kind, "- data:", rp.Data)
		return 0
	}
	w, err := rp.World(KindIAVL)
	if err != nil {
		fmt.Fprintln(os.Stderr, err)
		return 2
	}
	for i, a := range rp.Actions {
		before := w.Dump()
		o := w.Apply(a)
		fmt.Printf(" step %d: %s [%s]\n   -> %s err=%q panic=%q\n", i, a.Desc, a.Type, o.Class(), o.Err, o.PanicVal)
		for _, d := range o.Deps {
			fmt.Printf("      dep %+v\n", d)
		}
		for _, m := range TypedEvents(o.Events) {
			fmt.Printf("      event %T %v\n", m, m)
		}
		for _, d := range DiffDumps(before, w.Dump()) {
			fmt.Printf("      state %s\n", d)
		}
	}
	return 0
}
