package main

// C01 -- inbound messages need a quorum of distinct enabled attesters.
// Product: (enabled set, stored-key spelling, threshold) x all sequences of up
// to T+1 adversarial "atoms"; acceptance by the exported verifier must equal
// the reference reading (independent recovery code) -- soundness and
// completeness in one iff. A stateful leg reaches each configuration by real
// transactions and submits attestations through receive and replace.

import (
	"bytes"
	"fmt"
	"sort"

	cctpkeeper "github.com/circlefin/noble-cctp/x/cctp/keeper"
	cctptypes "github.com/circlefin/noble-cctp/x/cctp/types"
)

func init() {
	register(&Check{
		ID:    "C01",
		Level: "model_checking",
		Rule: "product: enabled set E (non-empty subset of 3 keys quick / 4 keys thorough) x spelling of the stored key {hex, 0x-hex, upper-hex, mixed, and one key stored under two spellings at once} x threshold 1..min(|E|,3 quick / 4 thorough) x message {empty, 116-byte header, burn message} " +
			"x ALL sequences of 0..T atoms and all sequences of T+1 atoms (which can only be length-rejected) whose first or last atom is one of {an honest signature, 65 zero bytes, the 64-byte, the 66-byte atom}; atoms per key: honest v0/1, legacy v27/28, high-s twin, honest over another message, honest signature by the mirror key n-d (same X coordinate, not an attester); plus an unknown key, 65 zero bytes, a valid signature with v=2, a 64-byte truncation and a 66-byte padding (misaligning later chunks); " +
			"verifier result == reference reading (iff); stateful leg: every (E,T,spelling) reached by enable/threshold transactions and the same atoms submitted through receive-message and replace-message; " +
			"states = configurations, transitions = verifier/handler executions; distinct_nontrivial = distinct (configuration, atom sequence) pairs whose total length equals 65*T (i.e. that reach signature checking)",
		Assumptions: []string{"forgery is not attempted: arbitrary byte strings are covered through the atom alphabet and chunk misalignment", "ECDSA/Keccak assumptions as usual",
			"reference recovery uses decred/btcec (pure Go), the implementation go-ethereum's libsecp256k1 binding"},
		Jobs: c01Jobs,
		Vacuity: func(m *Run) []string {
			if m.Classes["accept"] == 0 || m.Classes["reject-crypto"] == 0 || m.Classes["reject-length"] == 0 || m.Classes["stateful-accept"] == 0 || m.Classes["stateful-reject"] == 0 {
				return []string{fmt.Sprintf("C01 vacuous: %v", m.Classes)}
			}
			return nil
		},
	})
	replayers["verify"] = c01Replay
}

type c01Atom struct {
	Name   string
	Bytes  []byte
	Signer int  // index into Keys of the key this chunk stands for when it occupies an aligned slot, -1 none
	Size65 bool // exactly 65 bytes
}

func c01Atoms(nkeys int, m0, m1 []byte) []c01Atom {
	var as []c01Atom
	for i := 0; i < nkeys; i++ {
		k := Keys[i]
		sig := k.SignRSV(m0)
		leg := append([]byte{}, sig...)
		leg[64] += 27
		as = append(as,
			c01Atom{k.Name + ":honest", sig, i, true},
			c01Atom{k.Name + ":legacy-v", leg, i, true},
			c01Atom{k.Name + ":high-s-twin", HighSTwin(sig), i, true},
			c01Atom{k.Name + ":over-other-message", k.SignRSV(m1), -1, true},
		)
	}
	for i := 0; i < nkeys && i < 2; i++ {
		as = append(as, c01Atom{Keys[i].Name + ":mirror-key(n-d)", MirrorKey(Keys[i]).SignRSV(m0), -1, true})
	}
	unk := Keys[5].SignRSV(m0)
	k1 := Keys[0].SignRSV(m0)
	v2 := append([]byte{}, k1...)
	v2[64] = 2 + (v2[64] & 1)
	as = append(as,
		c01Atom{"K6(unknown):honest", unk, -1, true},
		c01Atom{"zeros65", make([]byte, 65), -1, true},
		c01Atom{"K1:v=2/3", v2, -1, true},
		c01Atom{"K1:truncated64", k1[:64], -1, false},
		c01Atom{"K1:padded66", append(append([]byte{}, k1...), 0), -1, false},
	)
	return as
}

type c01Config struct {
	E     []int // key indices, ascending
	Spell int   // 0 hex, 1 0x, 2 upper, 3 mixed (per key index)
	T     uint32
	NKeys int
	Dup   bool // the first key of E is additionally stored under a second accepted spelling
}

func (c c01Config) attesters() []cctptypes.Attester {
	var out []cctptypes.Attester
	for _, i := range c.E {
		sp := c.Spell
		if sp == 3 {
			sp = i % 3
		}
		out = append(out, cctptypes.Attester{Attester: Keys[i].Spell(sp)})
	}
	if c.Dup {
		sp := c.Spell
		if sp == 3 {
			sp = c.E[0] % 3
		}
		out = append(out, cctptypes.Attester{Attester: Keys[c.E[0]].Spell((sp + 1) % 3)})
	}
	// store order = sorted by key string (as the KV store would iterate)
	sort.Slice(out, func(a, b int) bool { return out[a].Attester+"/" < out[b].Attester+"/" })
	return out
}

func (c c01Config) String() string {
	var names []string
	for _, i := range c.E {
		names = append(names, Keys[i].Name)
	}
	if c.Dup {
		names = append(names, names[0]+"(second spelling)")
	}
	return fmt.Sprintf("E=%v spelling=%d T=%d", names, c.Spell, c.T)
}

func c01Configs(tier string) []c01Config {
	nkeys, maxT := 3, 3
	if tier == "thorough" {
		nkeys, maxT = 4, 4
	}
	var out []c01Config
	for mask := 1; mask < 1<<nkeys; mask++ {
		var E []int
		for i := 0; i < nkeys; i++ {
			if mask&(1<<i) != 0 {
				E = append(E, i)
			}
		}
		for t := 1; t <= len(E) && t <= maxT; t++ {
			for sp := 0; sp < 4; sp++ {
				out = append(out, c01Config{E: E, Spell: sp, T: uint32(t), NKeys: nkeys})
			}
			// one key stored under two spellings: two registry entries, still one signer
			out = append(out, c01Config{E: E, Spell: 0, T: uint32(t), NKeys: nkeys, Dup: true})
			if len(E) < nkeys && t == len(E) && t < maxT {
				out = append(out, c01Config{E: E, Spell: 1, T: uint32(t + 1), NKeys: nkeys, Dup: true}) // threshold = number of entries > number of distinct keys
			}
		}
	}
	return out
}

func c01Jobs(tier string) []Job {
	var jobs []Job
	for _, c := range c01Configs(tier) {
		c := c
		for mi := 0; mi < 3; mi++ { // one job per message: the largest configurations are the tail of the run
			mi := mi
			jobs = append(jobs, Job{Name: fmt.Sprintf("verify %s msg#%d", c, mi), Run: func(r *Run) { c01Product(r, c, mi) }})
		}
		if c.Spell == 0 || c.Spell == 3 {
			for _, leg := range []string{"receive", "replace"} {
				leg := leg
				jobs = append(jobs, Job{Name: "stateful " + leg + " " + c.String(), Run: func(r *Run) { c01Stateful(r, c, leg) }})
			}
		}
	}
	return jobs
}

// semantic oracle from what the atoms *are* (no recovery involved)
func c01Semantic(c c01Config, seq []c01Atom) bool {
	if uint32(len(seq)) != c.T {
		return false
	}
	var last []byte
	for _, a := range seq {
		if !a.Size65 || a.Signer < 0 {
			return false
		}
		in := false
		for _, e := range c.E {
			if e == a.Signer {
				in = true
			}
		}
		if !in {
			return false
		}
		addr := Keys[a.Signer].EthAddr
		if last != nil && bytes.Compare(last, addr) >= 0 {
			return false
		}
		last = addr
	}
	return true
}

func c01Product(r *Run, c c01Config, mi int) {
	burn := InboundBurn(DomEth, 9, bigPow2(70), pad32(UserB.Addr), nil)
	msgs := []struct {
		name string
		m    []byte
	}{{"empty", nil}, {"header116", burn[:116]}, {"burn248", burn}}
	other := []byte("another message")
	atts := c.attesters()
	var enabled []string
	for _, a := range atts {
		enabled = append(enabled, a.Attester)
	}
	if mi == 0 {
		r.States++
	}
	for _, mm := range msgs[mi : mi+1] {
		atoms := c01Atoms(c.NKeys, mm.m, other)
		maxL := int(c.T) + 1
		seq := make([]c01Atom, 0, maxL)
		var rec func()
		eval := func() {
			var att []byte
			aligned := true
			names := make([]string, len(seq))
			for i, a := range seq {
				att = append(att, a.Bytes...)
				names[i] = a.Name
				if !a.Size65 {
					aligned = false
				}
			}
			r.Evaluations++
			reaches := len(att) == 65*int(c.T)
			in := append([]byte{}, att...)
			msgCopy := append([]byte{}, mm.m...)
			var ierr error
			var panicked any
			func() {
				defer func() { panicked = recover() }()
				ierr = cctpkeeper.VerifyAttestationSignatures(msgCopy, in, atts, c.T)
			}()
			r.Transitions++
			refOK, why := RefVerify(mm.m, att, enabled, c.T)
			data := map[string]any{"message_hex": fmt.Sprintf("%x", mm.m), "attestation_hex": fmt.Sprintf("%x", att), "attesters": enabled, "threshold": c.T, "atoms": names}
			if panicked != nil {
				r.Violate("C01 verifier panicked", fmt.Sprintf("[%s] msg=%s atoms=%v: %v", c, mm.name, names, panicked), Replay{Kind: "verify", Data: data})
				return
			}
			if aligned {
				if sem := c01Semantic(c, seq); sem != refOK {
					r.HarnessError("reference reading disagrees with atom semantics: [%s] %v sem=%v ref=%v (%s)", c, names, sem, refOK, why)
				}
			}
			if reaches {
				r.Distinct(fmt.Sprintf("%s|%s|%v", c, mm.name, names))
			}
			switch {
			case (ierr == nil) != refOK:
				fp := "C01 attestation accepted without a quorum of distinct enabled attesters"
				if refOK {
					fp = "C01 honest attestation rejected"
				}
				r.Violate(fp, fmt.Sprintf("[%s] msg=%s atoms=%v: verifier err=%v, reference accepted=%v (%s)", c, mm.name, names, ierr, refOK, why),
					Replay{Kind: "verify", Data: data, Expected: fmt.Sprintf("accepted=%v (%s)", refOK, why), Observed: fmt.Sprint(ierr)})
			case ierr == nil:
				r.Class("accept")
				if len(r.Samples) < 2 {
					r.Sample("accepted", map[string]any{"config": c.String(), "message": mm.name, "atoms": names})
				}
			case reaches:
				r.Class("reject-crypto")
			default:
				r.Class("reject-length")
			}
		}
		// Sequences of T+1 atoms are at least 64(T+1) > 65T bytes long for every T < 64: they can only
		// be length-rejected. They are enumerated with a reduced atom set at ONE end (first or last
		// atom one of: an honest signature, 65 zero bytes, a 64-byte and a 66-byte atom) and the full
		// alphabet everywhere else -- every quorum with something prepended or appended.
		extra := func(a c01Atom) bool {
			return a.Name == "K1:honest" || a.Name == "zeros65" || a.Name == "K1:truncated64" || a.Name == "K1:padded66"
		}
		rec = func() {
			eval()
			if len(seq) == maxL {
				return
			}
			last := len(seq) == maxL-1
			for _, a := range atoms {
				if last && len(seq) > 0 && !extra(a) && !extra(seq[0]) {
					continue
				}
				seq = append(seq, a)
				rec()
				seq = seq[:len(seq)-1]
			}
		}
		if r.Expired() {
			r.Truncate("C01 deadline in " + c.String())
			return
		}
		rec()
	}
}

// c01Stateful: reach (E,T) by real transactions, then submit through the handlers.
func c01Stateful(r *Run, c c01Config, onlyLeg string) {
	full := c.attesters()
	g := BaseGenesis()
	g.AttesterList = full[:1]
	g.SignatureThreshold = &cctptypes.SignatureThreshold{Amount: 1}
	scn := Scenario{Name: "c01", Ledger: BaseLedger(), Genesis: g}
	w := scn.Build(KindDB)
	var pre []Action
	reachable := true
	do := func(a Action) {
		o := w.Apply(a)
		pre = append(pre, a)
		if !o.OK {
			reachable = false
		}
	}
	defer func() {
		if !reachable {
			r.Truncate("C01 stateful: configuration " + c.String() + " cannot be reached by transactions on this tree")
		}
	}()
	for _, a := range full[1:] {
		do(Act("enableAttester("+attName(a.Attester)+") by A1", &cctptypes.MsgEnableAttester{From: AttMgr.Str, Attester: a.Attester}))
	}
	if c.T != 1 {
		do(Act(fmt.Sprintf("updateSignatureThreshold(%d) by A1", c.T), &cctptypes.MsgUpdateSignatureThreshold{From: AttMgr.Str, Amount: c.T}))
	}
	// a further key is enabled (under the configuration's spelling) and disabled again: it is not
	// "currently enabled", whatever the registry does with spellings
	extra := -1
	for i := 0; i < c.NKeys; i++ {
		in := false
		for _, e := range c.E {
			if e == i {
				in = true
			}
		}
		if !in {
			extra = i
			break
		}
	}
	modelView := ViewOf(w)
	if extra >= 0 && reachable {
		sp := c.Spell
		if sp == 3 {
			sp = 1
		}
		sps := []int{sp}
		if sp != 2 {
			sps = append(sps, 2) // and once more stored in upper case
		}
		for _, sp := range sps {
			name := Keys[extra].Spell(sp)
			do(Act("enableAttester("+attName(name)+") by A1", &cctptypes.MsgEnableAttester{From: AttMgr.Str, Attester: name}))
			// first under ANOTHER spelling of the same key: on this tree that names a different (absent)
			// registry entry and is refused; an implementation that accepts it has disabled the key
			altSp := 1
			if sp == 1 {
				altSp = 0
			}
			alt := Act("disableAttester("+attName(Keys[extra].Spell(altSp))+") by A1", &cctptypes.MsgDisableAttester{From: AttMgr.Str, Attester: Keys[extra].Spell(altSp)})
			if o := w.Apply(alt); o.OK {
				pre = append(pre, alt)
			} else {
				do(Act("disableAttester("+attName(name)+") by A1", &cctptypes.MsgDisableAttester{From: AttMgr.Str, Attester: name}))
			}
		}
	}
	if !reachable {
		return
	}
	base := w.Dump()
	if onlyLeg == "receive" {
		r.States++
	}
	view := modelView // the enabled set according to the history of successful enable/disable transactions
	inbound := InboundPlain(DomEth, 77, []byte("stateful leg"), nil)
	original := RefMsg(0, Noble, DomEth, 5, pad32(UserA.Addr), distinct32(0x21), Zero32, []byte("to be replaced"))
	other := []byte("another message")
	for _, leg := range []string{onlyLeg} {
		m := inbound
		if leg == "replace" {
			m = original
		}
		all := c01Atoms(c.NKeys, m, other)
		// reduced alphabet: honest + twin + over-other-message per key, unknown key, truncation
		var atoms []c01Atom
		for i, a := range all {
			if i < 4*c.NKeys && i%4 == 1 {
				continue
			}
			if a.Name == "zeros65" || a.Name == "K1:v=2/3" || a.Name == "K1:padded66" {
				continue
			}
			atoms = append(atoms, a)
		}
		// control: the canonical honest attestation by the first T enabled keys. If even that is
		// rejected here, rejections in this leg cannot be blamed on attestation checking
		// (completeness is then left to the pure product above and to C03).
		var ctl []AttKey
		for _, i := range c.E {
			if len(ctl) < int(c.T) {
				ctl = append(ctl, Keys[i])
			}
		}
		controlOK := false
		if len(ctl) == int(c.T) {
			var ca Action
			if leg == "receive" {
				ca = MkReceive(UserB.Str, m, Attest(m, ctl), "control")
			} else {
				ca = MkReplaceMessage(UserA.Str, m, Attest(m, ctl), []byte("new"), distinct32(0x23), "control")
			}
			w.Load(base)
			controlOK = w.Apply(ca).OK
			r.Transitions++
		}
		if !controlOK && len(ctl) == int(c.T) {
			r.Truncate("C01 stateful " + leg + " leg: the honest control attestation is rejected in this configuration; completeness not judged through the handler")
		}
		lens := []int{int(c.T) - 1, int(c.T), int(c.T) + 1}
		var seq []c01Atom
		var rec func(L int)
		eval := func() {
			var att []byte
			names := make([]string, len(seq))
			for i, a := range seq {
				att = append(att, a.Bytes...)
				names[i] = a.Name
			}
			var a Action
			if leg == "receive" {
				a = MkReceive(UserB.Str, m, att, fmt.Sprintf("plain(0,77) atoms=%v", names))
			} else {
				a = MkReplaceMessage(UserA.Str, m, att, []byte("new"), distinct32(0x23), fmt.Sprintf("atoms=%v", names))
			}
			w.Load(base)
			p := Predict(w, view, a)
			o := w.Apply(a)
			r.Transitions++
			path := append(append([]Action{}, pre...), a)
			if o.Panicked {
				r.Violate("C01 handler panicked on an attestation", a.Desc+": "+o.PanicVal, scn.Replay("actions", path))
				return
			}
			if ExpMismatch(p, o) && p.Exp == MustSucceed && !controlOK {
				r.Class("stateful-reject")
				return
			}
			if ExpMismatch(p, o) {
				rp := scn.Replay("actions", path)
				rp.Expected, rp.Observed = p.Exp.String()+" "+p.Why, o.Class()+" "+o.Err
				fp := "C01 " + leg + " accepted a message without a quorum of distinct enabled attesters"
				if p.Exp == MustSucceed {
					fp = "C01 " + leg + " rejected an honestly attested message"
				}
				r.Violate(fp, fmt.Sprintf("[%s] %s: expected %s (%s), got %s %s", c, a.Desc, p.Exp, p.Why, o.Class(), o.Err), rp)
				return
			}
			if o.OK {
				r.Class("stateful-accept")
			} else {
				r.Class("stateful-reject")
			}
		}
		rec = func(L int) {
			if len(seq) == L {
				eval()
				return
			}
			for _, a := range atoms {
				seq = append(seq, a)
				rec(L)
				seq = seq[:len(seq)-1]
			}
		}
		for _, L := range lens {
			if L < 0 {
				continue
			}
			if r.Expired() {
				r.Truncate("C01 deadline in stateful " + c.String())
				return
			}
			rec(L)
		}
	}
}

func c01Replay(rp *Replay) int {
	var msg, att []byte
	fmt.Sscanf(fmt.Sprint(rp.Data["message_hex"]), "%x", &msg)
	fmt.Sscanf(fmt.Sprint(rp.Data["attestation_hex"]), "%x", &att)
	var atts []cctptypes.Attester
	var enabled []string
	if l, ok := rp.Data["attesters"].([]any); ok {
		for _, a := range l {
			atts = append(atts, cctptypes.Attester{Attester: fmt.Sprint(a)})
			enabled = append(enabled, fmt.Sprint(a))
		}
	}
	t := uint32(0)
	if f, ok := rp.Data["threshold"].(float64); ok {
		t = uint32(f)
	}
	fmt.Println(" atoms:", rp.Data["atoms"])
	func() {
		defer func() {
			if p := recover(); p != nil {
				fmt.Println(" implementation: PANIC", p)
			}
		}()
		err := cctpkeeper.VerifyAttestationSignatures(append([]byte{}, msg...), append([]byte{}, att...), atts, t)
		fmt.Println(" implementation: err =", err)
	}()
	ok, why := RefVerify(msg, att, enabled, t)
	fmt.Println(" reference: accepted =", ok, why)
	return 0
}
