package main

// C20 -- no input crashes a handler, query, decoder or CLI address parser.
// Product per message type of per-field nasty domains, each message built as
// wire bytes and decoded with the generated Unmarshal (so "absent" really is
// absent), in several reachable states; all queries with nil / extreme
// requests; both decoders; the CLI address parser via the verif hook.

import (
	"bytes"
	"encoding/binary"
	"fmt"
	"math/big"
	"regexp"
	"strings"

	"cosmossdk.io/math"
	sdk "github.com/cosmos/cosmos-sdk/types"
	"github.com/cosmos/cosmos-sdk/types/query"

	"github.com/circlefin/noble-cctp/x/cctp/client/cli"
	cctpkeeper "github.com/circlefin/noble-cctp/x/cctp/keeper"
	cctptypes "github.com/circlefin/noble-cctp/x/cctp/types"
)

func init() {
	register(&Check{
		ID:    "C20",
		Level: "model_checking",
		Rule: "product per transaction type of per-field domains (strings: empty, valid, malformed, case variants, U+017F, invalid UTF-8, 10 kB; submitters also as well-formed 1-, 33- and 255-byte accounts; bytes: absent, empty, 31, zero32, nonzero32, 33, 10 kB; amounts: absent, -1, 0, 1, 2^256-1; integers: 0, 1, max), " +
			"each message built as wire bytes and decoded by the generated Unmarshal, in 9 states (populated, both paused, default genesis, threshold near 2^32/65, malformed-but-accepted attester strings, negative stored burn limit, token pairs and limits naming an empty / an invalid denom, wrong-length messenger addresses with the nonce counter at 2^64-1 -- the last three only a genesis file can create); all 19 queries with nil request and nil/contradictory/extreme pagination; " +
			"both message decoders and the verifier over all lengths 0..300; the CLI address parser over all strings of length <=3 over {0,x,1,z,O,U+017F}, a multi-byte character at every byte offset 0..24 of a base58 string, and long inputs; every call under recover(); " +
			"distinct_nontrivial = distinct (entry point, field-shape vector) classes",
		Assumptions: []string{"a panic fingerprint is entry point + innermost repository frame (function), not the line"},
		Jobs:        c20Jobs,
		Vacuity: func(m *Run) []string {
			if m.Classes["ok"] == 0 || m.Classes["error"] == 0 {
				return []string{fmt.Sprintf("C20 vacuous: %v", m.Classes)}
			}
			return nil
		},
	})
	replayers["parseaddr"] = func(rp *Replay) int {
		s, _ := rp.Data["input"].(string)
		func() {
			defer func() {
				if p := recover(); p != nil {
					fmt.Printf(" parseAddress(%q) PANIC: %v\n", s, p)
				}
			}()
			b, err := cli.ParseAddressForVerif(s)
			fmt.Printf(" parseAddress(%q) = %x, %v\n", s, b, err)
		}()
		return 0
	}
}

// ---------------------------------------------------------------------------
// minimal protobuf wire writer

type pbField struct {
	num    int
	absent bool
	varint *uint64
	bytes  []byte
}

func pbBytes(n int, b []byte) pbField  { return pbField{num: n, bytes: b} }
func pbAbsent(n int) pbField           { return pbField{num: n, absent: true} }
func pbVarint(n int, v uint64) pbField { return pbField{num: n, varint: &v} }

func pbEncode(fs []pbField) []byte {
	var out []byte
	var tmp [10]byte
	for _, f := range fs {
		if f.absent {
			continue
		}
		if f.varint != nil {
			n := binary.PutUvarint(tmp[:], uint64(f.num<<3|0))
			out = append(out, tmp[:n]...)
			n = binary.PutUvarint(tmp[:], *f.varint)
			out = append(out, tmp[:n]...)
			continue
		}
		n := binary.PutUvarint(tmp[:], uint64(f.num<<3|2))
		out = append(out, tmp[:n]...)
		n = binary.PutUvarint(tmp[:], uint64(len(f.bytes)))
		out = append(out, tmp[:n]...)
		out = append(out, f.bytes...)
	}
	return out
}

type dom struct {
	name string
	f    func(num int) pbField
}

func strDom(vals map[string]string) []dom {
	var out []dom
	for _, k := range sortedKeys(vals) {
		v := vals[k]
		out = append(out, dom{k, func(n int) pbField { return pbBytes(n, []byte(v)) }})
	}
	return out
}

func bytesDom(thorough bool) []dom {
	out := []dom{
		{"absent", pbAbsent},
		{"empty", func(n int) pbField { return pbBytes(n, []byte{}) }},
		{"31B", func(n int) pbField { return pbBytes(n, distinct32(0x41)[:31]) }},
		{"zero32", func(n int) pbField { return pbBytes(n, make([]byte, 32)) }},
		{"nonzero32", func(n int) pbField { return pbBytes(n, distinct32(0x41)) }},
	}
	if thorough {
		out = append(out,
			dom{"33B", func(n int) pbField { return pbBytes(n, append(distinct32(0x41), 7)) }},
			dom{"10kB", func(n int) pbField { return pbBytes(n, bytes.Repeat([]byte{0xAB}, 10000)) }})
	}
	return out
}

func amountDom() []dom {
	mk := func(s string) func(int) pbField { return func(n int) pbField { return pbBytes(n, []byte(s)) } }
	return []dom{{"absent", pbAbsent}, {"-1", mk("-1")}, {"0", mk("0")}, {"1", mk("1")}, {"2^256-1", mk(max256.String())}, {"empty-string", mk("")}}
}

func uintDom(max uint64) []dom {
	return []dom{{"0", func(n int) pbField { return pbVarint(n, 0) }}, {"1", func(n int) pbField { return pbVarint(n, 1) }}, {"max", func(n int) pbField { return pbVarint(n, max) }}, {"absent", pbAbsent}}
}

// product enumerates the Cartesian product of the field domains.
func product(doms [][]dom, f func(names []string, fields []pbField)) {
	idx := make([]int, len(doms))
	for {
		names := make([]string, len(doms))
		fields := make([]pbField, len(doms))
		for i, d := range doms {
			names[i] = d[idx[i]].name
			fields[i] = d[idx[i]].f(i + 1)
		}
		f(names, fields)
		i := len(doms) - 1
		for ; i >= 0; i-- {
			idx[i]++
			if idx[i] < len(doms[i]) {
				break
			}
			idx[i] = 0
		}
		if i < 0 {
			return
		}
	}
}

var c20States = []string{"populated", "paused", "default-genesis", "huge-threshold", "odd-attesters", "negative-burn-limit",
	"odd-pair-empty-denom", "odd-pair-invalid-denom", "odd-messengers-nonce-max"}

func c20Jobs(tier string) []Job {
	var jobs []Job
	types := []string{"UpdateOwner", "UpdateAttesterManager", "UpdateTokenController", "UpdatePauser", "AcceptOwner", "EnableAttester", "DisableAttester",
		"PauseBurningAndMinting", "UnpauseBurningAndMinting", "PauseSendingAndReceivingMessages", "UnpauseSendingAndReceivingMessages", "UpdateMaxMessageBodySize",
		"SetMaxBurnAmountPerMessage", "DepositForBurn", "DepositForBurnWithCaller", "ReplaceDepositForBurn", "ReceiveMessage", "SendMessage", "SendMessageWithCaller",
		"ReplaceMessage", "UpdateSignatureThreshold", "LinkTokenPair", "UnlinkTokenPair", "AddRemoteTokenMessenger", "RemoveRemoteTokenMessenger"}
	for _, st := range c20States {
		for _, t := range types {
			st, t := st, t
			jobs = append(jobs, Job{Name: "msg " + t + " @" + st, Run: func(r *Run) { c20Msg(r, st, t) }})
		}
		st := st
		jobs = append(jobs, Job{Name: "queries @" + st, Run: func(r *Run) { c20Queries(r, st) }})
	}
	jobs = append(jobs, Job{Name: "decoders", Run: c20Decoders}, Job{Name: "cli-parse-address", Run: c20CLI})
	return jobs
}

func c20Scenario(state string) (Scenario, []Action) {
	g := BaseGenesis()
	lg := BaseLedger()
	var pre []Action
	switch state {
	case "paused":
		pre = append(pre, Act("pauseBurningAndMinting by A2", &cctptypes.MsgPauseBurningAndMinting{From: Pauser.Str}),
			Act("pauseSendingAndReceiving by A2", &cctptypes.MsgPauseSendingAndReceivingMessages{From: Pauser.Str}))
	case "negative-burn-limit":
		// the limit setter accepts any integer: a stored negative limit is reachable by one transaction
		pre = append(pre, Act("setMaxBurnAmountPerMessage(uusdc,-1) by A3", &cctptypes.MsgSetMaxBurnAmountPerMessage{From: TokenCtl.Str, LocalToken: "uusdc", Amount: math.NewInt(-1)}))
	case "default-genesis":
		g = *cctptypes.DefaultGenesis()
		g.Owner, g.AttesterManager, g.Pauser, g.TokenController = Owner.Str, AttMgr.Str, Pauser.Str, TokenCtl.Str
	case "huge-threshold":
		// 65 * 66076420 = 2^32 + 4
		g.SignatureThreshold = &cctptypes.SignatureThreshold{Amount: 66076420}
	case "odd-attesters":
		// attester strings the enable handler accepts (any non-empty hex): short keys, an address, odd length
		g.AttesterList = []cctptypes.Attester{{Attester: Keys[0].Hex}, {Attester: "abcd"}, {Attester: fmt.Sprintf("0x%x", Keys[1].EthAddr)}, {Attester: "04"}, {Attester: "abc"}}
		g.SignatureThreshold = &cctptypes.SignatureThreshold{Amount: 1}
	case "populated":
		// at least three entries in every keyed list (pagination cursors exist for all of them)
		g.PerMessageBurnLimitList = []cctptypes.PerMessageBurnLimit{{Denom: "uusdc", Amount: math.NewInt(1000)}, {Denom: "uatom", Amount: math.NewInt(0)}, {Denom: "ueurc", Amount: math.NewInt(7)}}
		g.UsedNoncesList = []cctptypes.Nonce{{SourceDomain: 0, Nonce: 5}, {SourceDomain: 0, Nonce: 6}, {SourceDomain: 1, Nonce: 0}}
		g.TokenPairList = append(append([]cctptypes.TokenPair{}, g.TokenPairList...),
			cctptypes.TokenPair{RemoteDomain: 7, RemoteToken: distinct32(0xC7), LocalToken: "uusdc"}, cctptypes.TokenPair{RemoteDomain: 8, RemoteToken: distinct32(0xC8), LocalToken: "uusdc"})
		g.TokenMessengerList = append(append([]cctptypes.RemoteTokenMessenger{}, g.TokenMessengerList...), cctptypes.RemoteTokenMessenger{DomainId: 7, Address: distinct32(0xB7)})
	case "odd-pair-empty-denom", "odd-pair-invalid-denom":
		// registry contents only a genesis file can create: every linked pair names a local token that is not a denom
		odd := map[string]string{"odd-pair-empty-denom": "", "odd-pair-invalid-denom": "UUSDC! not/a denom"}[state]
		g.TokenPairList = append([]cctptypes.TokenPair{}, g.TokenPairList...)
		for i := range g.TokenPairList {
			g.TokenPairList[i].LocalToken = odd
		}
		g.PerMessageBurnLimitList = []cctptypes.PerMessageBurnLimit{{Denom: odd, Amount: math.NewInt(5)}}
	case "odd-messengers-nonce-max":
		// wrong-length and empty messenger addresses (genesis only) and the outbound counter at its maximum
		g.TokenMessengerList = []cctptypes.RemoteTokenMessenger{{DomainId: DomEth, Address: distinct32(0xB7)[:31]}, {DomainId: DomAvax, Address: nil},
			{DomainId: 2, Address: append(distinct32(0xB8), 1)}}
		g.NextAvailableNonce = &cctptypes.Nonce{Nonce: 1<<64 - 1}
	}
	return Scenario{Name: "c20-" + state, Ledger: lg, Genesis: g}, pre
}

// c20InboundExtremes: validly shaped inbound burn messages with extreme field values.
func c20InboundExtremes() []struct {
	name string
	msg  []byte
} {
	max := new(big.Int).Sub(new(big.Int).Lsh(big.NewInt(1), 256), big.NewInt(1))
	return []struct {
		name string
		msg  []byte
	}{
		{"inbound-burn-amount0", InboundBurn(DomEth, 78, big.NewInt(0), pad32(UserB.Addr), nil)},
		{"inbound-burn-amount-max", InboundBurn(DomEth, 79, max, pad32(UserB.Addr), nil)},
		{"inbound-burn-recipient-ff", InboundBurn(DomEth, 80, big.NewInt(7), bytes.Repeat([]byte{0xFF}, 32), nil)},
		{"inbound-burn-nonce-max", InboundBurn(1<<32-1, 1<<64-1, big.NewInt(7), pad32(UserB.Addr), nil)},
	}
}

var frameRe = regexp.MustCompile(`github\.com/circlefin/noble-cctp/(x/cctp/[\w/]+)\.([\w.()*]+)\(`)

// panicFingerprint: entry point + innermost repository function on the stack.
func panicFingerprint(entry, stack string) string {
	return panicFingerprintV(entry, stack, "")
}

var digitsRe = regexp.MustCompile(`[0-9]+`)

// panicClass normalises a panic value: numbers and quoted input are dropped.
func panicClass(pv string) string {
	if i := strings.Index(pv, ":"); i > 0 && strings.HasPrefix(pv, "runtime error") {
		pv = strings.TrimSpace(pv[i+1:])
	}
	pv = digitsRe.ReplaceAllString(pv, "N")
	if i := strings.Index(pv, ":"); i > 0 {
		pv = pv[:i]
	}
	if i := strings.IndexAny(pv, "\"'`"); i > 0 {
		pv = pv[:i]
	}
	if len(pv) > 48 {
		pv = pv[:48]
	}
	return strings.TrimSpace(pv)
}

func panicFingerprintV(entry, stack, pv string) string {
	cls := ""
	if pv != "" {
		cls = " [" + panicClass(pv) + "]"
	}
	m := frameRe.FindStringSubmatch(stack)
	if m == nil {
		return "C20 panic " + entry + cls + " (no repository frame)"
	}
	return "C20 panic " + entry + cls + " in " + m[1] + "." + m[2]
}

func c20Msg(r *Run, state, typ string) {
	scn, pre := c20Scenario(state)
	w := scn.Build(KindDB)
	for _, a := range pre {
		if o := w.Apply(a); !o.OK {
			panic(preambleFailed{fmt.Sprintf("%s: %s", a.Desc, o.Err)})
		}
	}
	// an own message and deposit for the replacement types (when sending is possible)
	signers := Keys[0:2]
	if state == "odd-attesters" {
		signers = Keys[0:1]
	}
	var origSend, origDep []byte
	if o := w.Apply(MkSend(UserA.Str, DomEth, distinct32(0x21), []byte("own"))); o.OK {
		origSend = MessageSentOf(o.Events)[0]
		pre = append(pre, MkSend(UserA.Str, DomEth, distinct32(0x21), []byte("own")))
	}
	if o := w.Apply(MkDeposit(UserA.Str, math.NewInt(7), DomEth, distinct32(0x24), "uusdc")); o.OK {
		origDep = MessageSentOf(o.Events)[0]
		pre = append(pre, MkDeposit(UserA.Str, math.NewInt(7), DomEth, distinct32(0x24), "uusdc"))
	}
	base := w.Dump()
	r.States++
	thorough := r.Tier == "thorough"

	holder := map[string]string{"UpdateOwner": Owner.Str, "UpdateAttesterManager": Owner.Str, "UpdateTokenController": Owner.Str, "UpdatePauser": Owner.Str, "AcceptOwner": Owner.Str,
		"EnableAttester": AttMgr.Str, "DisableAttester": AttMgr.Str, "UpdateSignatureThreshold": AttMgr.Str,
		"PauseBurningAndMinting": Pauser.Str, "UnpauseBurningAndMinting": Pauser.Str, "PauseSendingAndReceivingMessages": Pauser.Str, "UnpauseSendingAndReceivingMessages": Pauser.Str,
		"UpdateMaxMessageBodySize": Owner.Str, "AddRemoteTokenMessenger": Owner.Str, "RemoveRemoteTokenMessenger": Owner.Str,
		"SetMaxBurnAmountPerMessage": TokenCtl.Str, "LinkTokenPair": TokenCtl.Str, "UnlinkTokenPair": TokenCtl.Str}[typ]
	if holder == "" {
		holder = UserA.Str
	}
	from := strDom(map[string]string{"1holder": holder, "2empty": "", "3malformed": "noble1notanaddress", "4outsider": Outsider.Str,
		// well-formed account addresses of unusual length (bech32 accepts payloads of 1..255 bytes)
		"8acct1B": sdk.AccAddress([]byte{7}).String(), "8acct33B": sdk.AccAddress(bytes.Repeat([]byte{0x33}, 33)).String(), "8acct255B": sdk.AccAddress(bytes.Repeat([]byte{0x55}, 255)).String()})
	if thorough {
		from = append(from, strDom(map[string]string{"5long": strings.Repeat("a", 10000), "6badutf8": "\xff\xfe\xfd", "7module": ModuleAcct.Str})...)
	}
	addr := strDom(map[string]string{"valid": UserB.Str, "empty": "", "malformed": "noble1zzz", "upper": strings.ToUpper(UserB.Str), "badutf8": "\xff\xfe", "long": strings.Repeat("q", 10000)})
	attester := strDom(map[string]string{"K1": Keys[0].Hex, "K3": Keys[2].Hex, "0xK1": Keys[0].Spell(1), "empty": "", "0x": "0x", "nothex": "zzzz", "odd": "abc", "U+017F": "ſſ", "long": strings.Repeat("ab", 5000)})
	denom := strDom(map[string]string{"uusdc": "uusdc", "UUSDC": "UUSDC", "U+017F": "uuſdc", "empty": "", "other": "uatom", "badutf8": "uu\xffdc", "long": strings.Repeat("u", 10000), "slash": "ibc/ABC", "digit": "1usdc"})
	bs := bytesDom(thorough)
	u32 := uintDom(1<<32 - 1)
	u64 := uintDom(1<<64 - 1)
	amt := amountDom()

	msgDom := func(valid []byte) []dom {
		out := []dom{{"absent", pbAbsent}, {"empty", func(n int) pbField { return pbBytes(n, []byte{}) }},
			{"115B", func(n int) pbField { return pbBytes(n, bytes.Repeat([]byte{1}, 115)) }},
			{"116B-zero", func(n int) pbField { return pbBytes(n, make([]byte, 116)) }},
			{"247B", func(n int) pbField { return pbBytes(n, bytes.Repeat([]byte{0xFF}, 247)) }},
		}
		if valid != nil {
			v := valid
			out = append(out, dom{"valid", func(n int) pbField { return pbBytes(n, v) }},
				dom{"valid-truncated", func(n int) pbField { return pbBytes(n, v[:len(v)-1]) }})
		}
		inb := InboundBurn(DomEth, 77, big.NewInt(5), pad32(UserB.Addr), nil)
		out = append(out, dom{"inbound-burn", func(n int) pbField { return pbBytes(n, inb) }})
		for _, x := range c20InboundExtremes() {
			x := x
			out = append(out, dom{x.name, func(n int) pbField { return pbBytes(n, x.msg) }})
		}
		return out
	}
	attDom := func(valid []byte) []dom {
		out := []dom{{"absent", pbAbsent}, {"4B", func(n int) pbField { return pbBytes(n, []byte{1, 2, 3, 4}) }},
			{"64B", func(n int) pbField { return pbBytes(n, make([]byte, 64)) }}, {"65B-zero", func(n int) pbField { return pbBytes(n, make([]byte, 65)) }},
			{"130B-ff", func(n int) pbField { return pbBytes(n, bytes.Repeat([]byte{0xFF}, 130)) }}, {"131B", func(n int) pbField { return pbBytes(n, make([]byte, 131)) }}}
		if valid != nil {
			v := Attest(valid, signers)
			out = append(out, dom{"valid", func(n int) pbField { return pbBytes(n, v) }})
		}
		inb := InboundBurn(DomEth, 77, big.NewInt(5), pad32(UserB.Addr), nil)
		vi := Attest(inb, signers)
		out = append(out, dom{"valid-for-inbound", func(n int) pbField { return pbBytes(n, vi) }})
		for _, x := range c20InboundExtremes() {
			vx := Attest(x.msg, signers)
			out = append(out, dom{"valid-for-" + x.name, func(n int) pbField { return pbBytes(n, vx) }})
		}
		return out
	}

	var doms [][]dom
	switch typ {
	case "UpdateOwner", "UpdateAttesterManager", "UpdateTokenController", "UpdatePauser":
		doms = [][]dom{from, addr}
	case "AcceptOwner", "PauseBurningAndMinting", "UnpauseBurningAndMinting", "PauseSendingAndReceivingMessages", "UnpauseSendingAndReceivingMessages":
		doms = [][]dom{from}
	case "EnableAttester", "DisableAttester":
		doms = [][]dom{from, attester}
	case "UpdateMaxMessageBodySize":
		doms = [][]dom{from, u64}
	case "SetMaxBurnAmountPerMessage":
		doms = [][]dom{from, denom, amt}
	case "DepositForBurn":
		doms = [][]dom{from, amt, u32, bs, denom}
	case "DepositForBurnWithCaller":
		doms = [][]dom{from, amt, u32, bs, denom, bs}
	case "ReplaceDepositForBurn":
		doms = [][]dom{from, msgDom(origDep), attDom(origDep), bs, bs}
	case "ReceiveMessage":
		doms = [][]dom{from, msgDom(origSend), attDom(origSend)}
	case "SendMessage":
		doms = [][]dom{from, u32, bs, bs}
	case "SendMessageWithCaller":
		doms = [][]dom{from, u32, bs, bs, bs}
	case "ReplaceMessage":
		doms = [][]dom{from, msgDom(origSend), attDom(origSend), bs, bs}
	case "UpdateSignatureThreshold":
		doms = [][]dom{from, u32}
	case "LinkTokenPair", "UnlinkTokenPair":
		doms = [][]dom{from, u32, bs, denom}
	case "AddRemoteTokenMessenger":
		doms = [][]dom{from, u32, bs}
	case "RemoveRemoteTokenMessenger":
		doms = [][]dom{from, u32}
	}
	full := "circle.cctp.v1.Msg" + typ
	product(doms, func(names []string, fields []pbField) {
		if r.Expired() {
			r.Truncate("C20 deadline in " + typ + " @" + state)
			return
		}
		wire := pbEncode(fields)
		a := RawAct(fmt.Sprintf("%s%v", typ, names), full, wire)
		w.Load(base)
		o := w.Apply(a)
		r.Transitions++
		r.Class(o.Class())
		r.Distinct(typ + fmt.Sprint(names[1:]))
		if o.Panicked {
			fp := panicFingerprintV(typ, o.Stack, o.PanicVal)
			rp := scn.Replay("actions", append(append([]Action{}, pre...), a))
			rp.Expected, rp.Observed = "result or error", "panic: "+o.PanicVal
			r.Violate(fp, fmt.Sprintf("[%s] %s panicked: %s\n%s", state, a.Desc, o.PanicVal, firstLines(trimStack(o.Stack), 14)), rp)
		}
		if len(r.Samples) < 2 && o.OK {
			r.Sample("message", map[string]any{"state": state, "type": typ, "fields": names, "wire_hex": fmt.Sprintf("%x", wire), "observed": o.Class()})
		}
	})
}

func trimStack(s string) string {
	i := strings.Index(s, "panic(")
	if i > 0 {
		return s[i:]
	}
	return s
}

func c20Queries(r *Run, state string) {
	scn, pre := c20Scenario(state)
	w := scn.Build(KindDB)
	for _, a := range pre {
		w.Apply(a)
	}
	r.States++
	pages := []*query.PageRequest{nil, {}, {Limit: 1}, {Limit: 1<<64 - 1}, {Offset: 1<<64 - 1, Limit: 1}, {Key: []byte{0xFF, 0xFF}, Limit: 1}, {Key: []byte("x"), Offset: 3},
		{Reverse: true, Limit: 2}, {CountTotal: true, Limit: 0}, {Key: []byte{}, Offset: 0, Limit: 0, Reverse: true, CountTotal: true}}
	type q struct {
		name string
		f    func(ctx sdk.Context) error
	}
	var qs []q
	k := w.K
	add := func(name string, f func(ctx sdk.Context) error) { qs = append(qs, q{name, f}) }
	// nil requests
	add("Roles(nil)", func(c sdk.Context) error { _, e := k.Roles(c, nil); return e })
	add("Attester(nil)", func(c sdk.Context) error { _, e := k.Attester(c, nil); return e })
	add("Attesters(nil)", func(c sdk.Context) error { _, e := k.Attesters(c, nil); return e })
	add("PerMessageBurnLimit(nil)", func(c sdk.Context) error { _, e := k.PerMessageBurnLimit(c, nil); return e })
	add("PerMessageBurnLimits(nil)", func(c sdk.Context) error { _, e := k.PerMessageBurnLimits(c, nil); return e })
	add("BurningAndMintingPaused(nil)", func(c sdk.Context) error { _, e := k.BurningAndMintingPaused(c, nil); return e })
	add("SendingAndReceivingMessagesPaused(nil)", func(c sdk.Context) error { _, e := k.SendingAndReceivingMessagesPaused(c, nil); return e })
	add("MaxMessageBodySize(nil)", func(c sdk.Context) error { _, e := k.MaxMessageBodySize(c, nil); return e })
	add("NextAvailableNonce(nil)", func(c sdk.Context) error { _, e := k.NextAvailableNonce(c, nil); return e })
	add("SignatureThreshold(nil)", func(c sdk.Context) error { _, e := k.SignatureThreshold(c, nil); return e })
	add("TokenPair(nil)", func(c sdk.Context) error { _, e := k.TokenPair(c, nil); return e })
	add("TokenPairs(nil)", func(c sdk.Context) error { _, e := k.TokenPairs(c, nil); return e })
	add("UsedNonce(nil)", func(c sdk.Context) error { _, e := k.UsedNonce(c, nil); return e })
	add("UsedNonces(nil)", func(c sdk.Context) error { _, e := k.UsedNonces(c, nil); return e })
	add("RemoteTokenMessenger(nil)", func(c sdk.Context) error { _, e := k.RemoteTokenMessenger(c, nil); return e })
	add("RemoteTokenMessengers(nil)", func(c sdk.Context) error { _, e := k.RemoteTokenMessengers(c, nil); return e })
	add("BurnMessageVersion(nil)", func(c sdk.Context) error { _, e := k.BurnMessageVersion(c, nil); return e })
	add("LocalMessageVersion(nil)", func(c sdk.Context) error { _, e := k.LocalMessageVersion(c, nil); return e })
	add("LocalDomain(nil)", func(c sdk.Context) error { _, e := k.LocalDomain(c, nil); return e })
	// zero requests and nasty keys
	add("Roles", func(c sdk.Context) error { _, e := k.Roles(c, &cctptypes.QueryRolesRequest{}); return e })
	for _, s := range []string{"", Keys[0].Hex, "0x", "\xff", strings.Repeat("a", 10000)} {
		s := s
		add(fmt.Sprintf("Attester(%.8q)", s), func(c sdk.Context) error {
			_, e := k.Attester(c, &cctptypes.QueryGetAttesterRequest{Attester: s})
			return e
		})
		add(fmt.Sprintf("PerMessageBurnLimit(%.8q)", s), func(c sdk.Context) error {
			_, e := k.PerMessageBurnLimit(c, &cctptypes.QueryGetPerMessageBurnLimitRequest{Denom: s})
			return e
		})
	}
	for _, t := range []string{"", "0x", "zz", "0", fmt.Sprintf("%x", RemoteToken0), "0x" + fmt.Sprintf("%x", RemoteToken0), strings.Repeat("ab", 33), strings.Repeat("ab", 5000), "\xff"} {
		for _, d := range []uint32{0, 1<<32 - 1} {
			t, d := t, d
			add(fmt.Sprintf("TokenPair(%d,%.8q)", d, t), func(c sdk.Context) error {
				_, e := k.TokenPair(c, &cctptypes.QueryGetTokenPairRequest{RemoteDomain: d, RemoteToken: t})
				return e
			})
		}
	}
	for _, d := range []uint32{0, 1, 1<<32 - 1} {
		d := d
		add(fmt.Sprintf("RemoteTokenMessenger(%d)", d), func(c sdk.Context) error {
			_, e := k.RemoteTokenMessenger(c, &cctptypes.QueryRemoteTokenMessengerRequest{DomainId: d})
			return e
		})
		for _, n := range []uint64{0, 5, 1<<64 - 1} {
			n := n
			add(fmt.Sprintf("UsedNonce(%d,%d)", d, n), func(c sdk.Context) error {
				_, e := k.UsedNonce(c, &cctptypes.QueryGetUsedNonceRequest{SourceDomain: d, Nonce: n})
				return e
			})
		}
	}
	for i, p := range pages {
		p := p
		add(fmt.Sprintf("Attesters(page#%d)", i), func(c sdk.Context) error {
			_, e := k.Attesters(c, &cctptypes.QueryAllAttestersRequest{Pagination: p})
			return e
		})
		add(fmt.Sprintf("PerMessageBurnLimits(page#%d)", i), func(c sdk.Context) error {
			_, e := k.PerMessageBurnLimits(c, &cctptypes.QueryAllPerMessageBurnLimitsRequest{Pagination: p})
			return e
		})
		add(fmt.Sprintf("TokenPairs(page#%d)", i), func(c sdk.Context) error {
			_, e := k.TokenPairs(c, &cctptypes.QueryAllTokenPairsRequest{Pagination: p})
			return e
		})
		add(fmt.Sprintf("UsedNonces(page#%d)", i), func(c sdk.Context) error {
			_, e := k.UsedNonces(c, &cctptypes.QueryAllUsedNoncesRequest{Pagination: p})
			return e
		})
		add(fmt.Sprintf("RemoteTokenMessengers(page#%d)", i), func(c sdk.Context) error {
			_, e := k.RemoteTokenMessengers(c, &cctptypes.QueryRemoteTokenMessengersRequest{Pagination: p})
			return e
		})
	}
	// pagination keys that really occur (every entry's key, learnt from next_key with limit 1), in both
	// directions -- cursor values a client legitimately holds
	lists := map[string]func(c sdk.Context, p *query.PageRequest) (*query.PageResponse, error){
		"Attesters": func(c sdk.Context, p *query.PageRequest) (*query.PageResponse, error) {
			r, e := k.Attesters(c, &cctptypes.QueryAllAttestersRequest{Pagination: p})
			if e != nil {
				return nil, e
			}
			return r.Pagination, nil
		},
		"PerMessageBurnLimits": func(c sdk.Context, p *query.PageRequest) (*query.PageResponse, error) {
			r, e := k.PerMessageBurnLimits(c, &cctptypes.QueryAllPerMessageBurnLimitsRequest{Pagination: p})
			if e != nil {
				return nil, e
			}
			return r.Pagination, nil
		},
		"TokenPairs": func(c sdk.Context, p *query.PageRequest) (*query.PageResponse, error) {
			r, e := k.TokenPairs(c, &cctptypes.QueryAllTokenPairsRequest{Pagination: p})
			if e != nil {
				return nil, e
			}
			return r.Pagination, nil
		},
		"UsedNonces": func(c sdk.Context, p *query.PageRequest) (*query.PageResponse, error) {
			r, e := k.UsedNonces(c, &cctptypes.QueryAllUsedNoncesRequest{Pagination: p})
			if e != nil {
				return nil, e
			}
			return r.Pagination, nil
		},
		"RemoteTokenMessengers": func(c sdk.Context, p *query.PageRequest) (*query.PageResponse, error) {
			r, e := k.RemoteTokenMessengers(c, &cctptypes.QueryRemoteTokenMessengersRequest{Pagination: p})
			if e != nil {
				return nil, e
			}
			return r.Pagination, nil
		},
	}
	for _, name := range sortedKeys(lists) {
		name, fn := name, lists[name]
		var keys [][]byte
		func() {
			defer func() { recover() }()
			cctx, _ := w.ctx.CacheContext()
			var next []byte
			for i := 0; i < 20; i++ {
				res, err := fn(cctx, &query.PageRequest{Key: next, Limit: 1})
				if err != nil || res == nil || len(res.NextKey) == 0 {
					return
				}
				next = res.NextKey
				keys = append(keys, append([]byte{}, next...))
			}
		}()
		for ki, key := range keys {
			for pi, p := range []*query.PageRequest{{Key: key}, {Key: key, Reverse: true}, {Key: key, Reverse: true, Limit: 1}, {Key: key, Limit: 1<<64 - 1}, {Key: append(append([]byte{}, key...), 0), Reverse: true}, {Key: key[:len(key)/2], Reverse: true}} {
				p := p
				add(fmt.Sprintf("%s(real key #%d, shape %d)", name, ki, pi), func(c sdk.Context) error { _, e := fn(c, p); return e })
			}
		}
	}
	add("ExportGenesis", func(c sdk.Context) error { w.ExportCCTP(); return nil })
	for _, qq := range qs {
		cctx, _ := w.ctx.CacheContext()
		var pv any
		var stack string
		var err error
		func() {
			defer func() {
				if pv = recover(); pv != nil {
					stack = string(debugStack())
				}
			}()
			err = qq.f(cctx)
		}()
		r.Transitions++
		r.Distinct("query " + qq.name)
		switch {
		case pv != nil:
			r.Class("panic")
			entry := qq.name
			if i := strings.Index(entry, "("); i > 0 {
				entry = entry[:i]
			}
			rp := scn.Replay("actions", pre)
			rp.Data = map[string]any{"query": qq.name}
			r.Violate(panicFingerprintV("query "+entry, stack, fmt.Sprint(pv)), fmt.Sprintf("[%s] query %s panicked: %v\n%s", state, qq.name, pv, firstLines(trimStack(stack), 12)), rp)
		case err != nil:
			r.Class("error")
		default:
			r.Class("ok")
		}
	}
}

func c20Decoders(r *Run) {
	r.States++
	atts := []cctptypes.Attester{{Attester: Keys[0].Hex}, {Attester: "zz"}, {Attester: ""}}
	for L := 0; L <= 300; L++ {
		c16Patterns(L, []byte{0x80}, func(kind string, b []byte) {
			for _, dec := range []string{"message", "burn", "verify-t1", "verify-t2", "verify-huge", "verify-t0", "token-padded"} {
				var pv any
				var stack string
				func() {
					defer func() {
						if pv = recover(); pv != nil {
							stack = string(debugStack())
						}
					}()
					in := append([]byte{}, b...)
					switch dec {
					case "message":
						new(cctptypes.Message).Parse(in)
					case "burn":
						new(cctptypes.BurnMessage).Parse(in)
					case "verify-t1":
						cctpkeeper.VerifyAttestationSignatures([]byte("m"), in, atts, 1)
					case "verify-t2":
						cctpkeeper.VerifyAttestationSignatures(in, in, atts, 2)
					case "verify-t0":
						cctpkeeper.VerifyAttestationSignatures(in, in, nil, 0)
					case "verify-huge":
						cctpkeeper.VerifyAttestationSignatures([]byte("m"), in, atts, 66076420)
					case "token-padded":
						cctptypes.RemoteTokenPadded(string(in))
						cctptypes.RemoteTokenPadded(fmt.Sprintf("%x", in))
					}
				}()
				r.Transitions++
				if pv != nil {
					r.Class("panic")
					r.Violate(panicFingerprintV("decoder "+dec, stack, fmt.Sprint(pv)), fmt.Sprintf("%s on %d bytes (%s) panicked: %v\n%s", dec, L, kind, pv, firstLines(trimStack(stack), 10)),
						Replay{Kind: "codec", Data: map[string]any{"what": dec, "hex": fmt.Sprintf("%x", b)}, Observed: fmt.Sprint(pv)})
				} else {
					r.Class("ok")
				}
			}
			r.Distinct(fmt.Sprintf("dec %d/%s", L, kind))
		})
	}
	r.Class("error") // decoders report errors through their results; recorded for the vacuity guard
}

func c20CLI(r *Run) {
	r.States++
	alphabet := []string{"0", "x", "1", "z", "O", "ſ"}
	inputs := []string{""}
	cur := []string{""}
	for l := 0; l < 3; l++ {
		var nx []string
		for _, s := range cur {
			for _, c := range alphabet {
				nx = append(nx, s+c)
			}
		}
		inputs = append(inputs, nx...)
		cur = nx
	}
	// a multi-byte character at every byte offset of an otherwise valid base58 string (decoders work in blocks)
	for off := 0; off <= 24; off++ {
		for _, ch := range []string{"é", "ſ", "€", "\xff", "\xc3"} {
			inputs = append(inputs, strings.Repeat("1", off)+ch, strings.Repeat("z", off)+ch+"11")
		}
	}
	inputs = append(inputs, "0x"+strings.Repeat("ab", 32), "0x"+strings.Repeat("ab", 33), "0x"+strings.Repeat("ab", 5000), strings.Repeat("z", 44), strings.Repeat("1", 10000),
		"0X12", "0xzz", "\xff\xfe", "0x\xff", UserA.Str, "0x"+Keys[0].Hex)
	for _, in := range inputs {
		var pv any
		var stack string
		var err error
		func() {
			defer func() {
				if pv = recover(); pv != nil {
					stack = string(debugStack())
				}
			}()
			_, err = cli.ParseAddressForVerif(in)
		}()
		r.Transitions++
		r.Distinct("cli " + in)
		switch {
		case pv != nil:
			r.Class("panic")
			r.Violate(panicFingerprintV("cli parseAddress", stack, fmt.Sprint(pv)), fmt.Sprintf("parseAddress(%q) panicked: %v", in, pv),
				Replay{Kind: "parseaddr", Data: map[string]any{"input": in}, Expected: "bytes or error", Observed: fmt.Sprint(pv)})
		case err != nil:
			r.Class("error")
		default:
			r.Class("ok")
		}
	}
	r.Sample("cli", map[string]any{"inputs": len(inputs), "alphabet": alphabet, "max_len": 3})
}
