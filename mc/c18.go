package main

// C18 -- execution is deterministic and depends only on chain state.
// (a) all transaction-granular interleavings of N instances (own stores;
// separate keepers or one shared keeper), each compared with its solo run;
// (b) free-running -race pass of the same bodies (separate binary);
// (c) replays after unrelated histories / repeated replays;
// (d) informational AST scan.

import (
	"bytes"
	"cosmossdk.io/math"
	"encoding/hex"
	"encoding/json"
	"fmt"
	"go/ast"
	"go/parser"
	"go/token"
	"math/big"
	"os"
	"os/exec"
	"path/filepath"
	"runtime"
	"strings"
	"sync"

	sdk "github.com/cosmos/cosmos-sdk/types"
	"github.com/cosmos/gogoproto/proto"

	cctptypes "github.com/circlefin/noble-cctp/x/cctp/types"
)

func init() {
	register(&Check{
		ID:    "C18",
		Level: "exploration",
		Rule: "schedules: all transaction-granular interleavings of 3 instances x 2 transactions + 1 query-only step (630, quick) / 3 x 3 + 1 (16800, thorough), once with separate keepers and once with one keeper shared by all instances; " +
			"histories collide on the same keys with different values (one pauses while another sends, different attester sets, same nonce with different bodies); after every transaction the instance's IAVL root hash, response bytes, " +
			"event bytes and error text must equal that instance's solo reference run; plus the same histories after unrelated histories and 16 repeated runs in one process, and a separate free-running -race build running the bodies on 16 goroutines " +
			"(separate and shared keepers); discarded-transaction non-interference: for every ordered pair (s, q) of the ~135-request menu of C15 in 6 states, q after simulating-and-discarding s must equal q alone (result, response, events, post-state), and all queries/export after a discarded s must equal those before; distinct_nontrivial = distinct schedules in which at least two instances' transactions on the same key are adjacent",
		Assumptions: []string{"a cooperative scheduler with transaction-granular scheduling points is equivalent to executing the interleaved sequence on one goroutine; unsynchronised access is left to the separate -race pass",
			"Go map-iteration order, time and rand have no seam: they are covered by repeated in-process runs (a randomised differential, not part of the exhaustive claim) and by an informational AST scan"},
		Jobs:     c18Jobs,
		Finalize: c18Finalize,
		Vacuity: func(m *Run) []string {
			if m.Classes["schedule-ok"] == 0 {
				return []string{fmt.Sprintf("C18 vacuous: %v", m.Classes)}
			}
			return nil
		},
	})
}

const c18Shards = 14

func c18Jobs(tier string) []Job {
	var jobs []Job
	per := 2
	if tier == "thorough" {
		per = 3
	}
	for _, shared := range []bool{false, true} {
		for sh := 0; sh < c18Shards; sh++ {
			shared, sh := shared, sh
			jobs = append(jobs, Job{Name: fmt.Sprintf("schedules shared=%v shard%d", shared, sh), Run: func(r *Run) { c18Schedules(r, per, shared, sh) }})
		}
	}
	for _, st := range c15States {
		st := st
		jobs = append(jobs, Job{Name: "discarded-tx-non-interference @" + st, Run: func(r *Run) { c18NonInterference(r, st) }})
	}
	jobs = append(jobs, Job{Name: "repeat-and-after-unrelated", Run: c18Repeat})
	for _, shared := range []bool{false, true} {
		shared := shared
		jobs = append(jobs, Job{Name: fmt.Sprintf("schedules-registry-keys shared=%v", shared), Run: func(r *Run) { c18RegistrySchedules(r, shared) }})
	}
	jobs = append(jobs, Job{Name: "repeat-rejected-requests-free-running", Run: c18RejectedRepeat})
	jobs = append(jobs, Job{Name: "race-pass", Run: c18RacePass})
	jobs = append(jobs, Job{Name: "ast-scan", Run: c18AST})
	return jobs
}

// ---------------------------------------------------------------------------
// histories

func c18Scenario() Scenario {
	g := BaseGenesis()
	return Scenario{Name: "c18", Ledger: BaseLedger(), Genesis: g}
}

func c18Histories() [][]Action {
	signers := Keys[0:2]
	b1 := InboundBurn(DomEth, 1, big.NewInt(10), pad32(UserB.Addr), nil)
	b1other := InboundBurn(DomEth, 1, big.NewInt(999), pad32(UserA.Addr), nil) // same nonce, different body
	// the first message a fresh chain emits for this send (needed to replace it)
	send := MkSend(UserA.Str, DomEth, distinct32(0x21), []byte("hello"))
	scratch := c18Scenario().Build(KindDB)
	var own []byte
	if o := scratch.Apply(send); o.OK {
		own = MessageSentOf(o.Events)[0]
	}
	return [][]Action{
		{
			Act("pauseSendingAndReceiving by A2", &cctptypes.MsgPauseSendingAndReceivingMessages{From: Pauser.Str}),
			MkSend(UserA.Str, DomEth, distinct32(0x21), []byte("while paused")),
			Act("unpauseSendingAndReceiving by A2", &cctptypes.MsgUnpauseSendingAndReceivingMessages{From: Pauser.Str}),
		},
		{
			send,
			MkReplaceMessage(UserA.Str, own, Attest(own, signers), []byte("replaced"), distinct32(0x23), "own first message"),
			MkReceive(UserB.Str, b1, Attest(b1, signers), "burn(0,1,10)"),
		},
		{
			Act("updatePauser(A6) by A0", &cctptypes.MsgUpdatePauser{From: Owner.Str, NewPauser: Outsider.Str}),
			MkReceive(UserB.Str, b1other, Attest(b1other, signers), "burn(0,1,999) other body"),
			Act("enableAttester(K3) by A1", &cctptypes.MsgEnableAttester{From: AttMgr.Str, Attester: Keys[2].Hex}),
		},
	}
}

type c18Obs struct {
	Err, Resp, Events, Root string
}

// applyRaw executes one transaction without touching the probe/recorder
// (safe on worlds that share keepers) and commits the block.
func (w *World) applyRaw(a Action) c18Obs {
	var ob c18Obs
	msg, err := a.Decode()
	if err != nil {
		ob.Err = "decode: " + err.Error()
		return ob
	}
	cctx, write := w.ctx.WithEventManager(sdk.NewEventManager()).CacheContext()
	resp, herr, panicked, pv, _ := w.CallHandler(cctx, a.Type, msg)
	switch {
	case panicked:
		ob.Err = "panic: " + pv
	case herr != nil:
		ob.Err = herr.Error()
	default:
		if resp != nil {
			bz, _ := proto.Marshal(resp)
			ob.Resp = hex.EncodeToString(bz)
		}
		var sb strings.Builder
		for _, e := range cctx.EventManager().Events() {
			sb.WriteString(e.Type)
			for _, at := range e.Attributes {
				sb.WriteString("|" + at.Key + "=" + at.Value)
			}
			sb.WriteString(";")
		}
		ob.Events = sb.String()
		write()
	}
	ob.Root = hex.EncodeToString(w.Commit())
	return ob
}

// queryStep: a fixed bundle of queries; its observation is the rendered results.
func (w *World) queryStep() c18Obs {
	cctx, _ := w.ctx.CacheContext()
	var sb strings.Builder
	r1, e1 := w.K.Roles(cctx, &cctptypes.QueryRolesRequest{})
	r2, e2 := w.K.Attesters(cctx, &cctptypes.QueryAllAttestersRequest{})
	r3, e3 := w.K.SendingAndReceivingMessagesPaused(cctx, &cctptypes.QueryGetSendingAndReceivingMessagesPausedRequest{})
	r4, e4 := w.K.NextAvailableNonce(cctx, &cctptypes.QueryGetNextAvailableNonceRequest{})
	r5, e5 := w.K.UsedNonces(cctx, &cctptypes.QueryAllUsedNoncesRequest{})
	fmt.Fprintf(&sb, "%v %v|%v %v|%v %v|%v %v|%v %v", r1, e1, r2, e2, r3, e3, r4, e4, r5, e5)
	g := w.ExportCCTP()
	bz, _ := theCodec().MarshalJSON(g)
	sb.Write(bz)
	return c18Obs{Resp: sb.String(), Root: hex.EncodeToString(w.Commit())}
}

func c18Solo(scn Scenario, h []Action) []c18Obs {
	w := scn.Build(KindIAVL)
	var out []c18Obs
	for _, a := range h {
		out = append(out, w.applyRaw(a))
	}
	return out
}

// ---------------------------------------------------------------------------
// schedules

func c18Schedules(r *Run, per int, shared bool, shard int) {
	scn := c18Scenario()
	hs := c18Histories()
	for i := range hs {
		hs[i] = hs[i][:per]
	}
	solo := make([][]c18Obs, len(hs))
	for i, h := range hs {
		solo[i] = c18Solo(scn, h)
	}
	// the query-only instance: its solo observation
	wq := scn.Build(KindIAVL)
	soloQ := wq.queryStep()
	counts := []int{per, per, per, 1}
	total := 3*per + 1
	idx := 0
	sched := make([]int, 0, total)
	var rec func()
	run := func() {
		// fresh instances
		var ws []*World
		base := scn.Build(KindIAVL)
		ws = append(ws, base)
		for i := 1; i < 4; i++ {
			if shared {
				w := NewSharedWorld(base)
				w.InitLedger(scn.Ledger)
				w.InitCCTP(scn.Genesis)
				ws = append(ws, w)
			} else {
				ws = append(ws, scn.Build(KindIAVL))
			}
		}
		pos := make([]int, 4)
		adjacent := false
		for si, inst := range sched {
			if si > 0 && sched[si-1] != inst {
				adjacent = true
			}
			var got, want c18Obs
			var what string
			if inst == 3 {
				got, want, what = ws[3].queryStep(), soloQ, "query bundle"
			} else {
				a := hs[inst][pos[inst]]
				got, want, what = ws[inst].applyRaw(a), solo[inst][pos[inst]], a.Desc
			}
			pos[inst]++
			r.Transitions++
			if got != want {
				field := "root hash"
				switch {
				case got.Err != want.Err:
					field = "result"
				case got.Resp != want.Resp:
					field = "response"
				case got.Events != want.Events:
					field = "events"
				}
				rp := Replay{Kind: "schedule", Ledger: &scn.Ledger, Genesis: GenesisJSON(scn.Genesis),
					Data:     map[string]any{"schedule": append([]int{}, sched...), "shared_keeper": shared, "per_instance": per, "diverged_at": si},
					Expected: fmt.Sprintf("%+v", want), Observed: fmt.Sprintf("%+v", got)}
				r.Violate("C18 instance diverged from its solo run ("+field+")",
					fmt.Sprintf("shared_keeper=%v schedule=%v step %d (instance %d: %s): %s differs\n solo:        %+v\n interleaved: %+v", shared, sched, si, inst, what, field, want, got), rp)
				return
			}
		}
		r.Class("schedule-ok")
		if adjacent {
			r.Distinct(fmt.Sprintf("%v|%v", shared, sched))
		}
		if len(r.Samples) < 2 {
			r.Sample("schedule", map[string]any{"shared_keeper": shared, "schedule(instance per step; 3=query-only)": append([]int{}, sched...)})
		}
	}
	left := append([]int{}, counts...)
	rec = func() {
		if len(sched) == total {
			if idx%c18Shards == shard {
				if r.Expired() {
					r.Truncate("C18 deadline in schedule enumeration")
				} else if r.violTotal < 20 {
					r.Evaluations++
					run()
				}
			}
			idx++
			return
		}
		for i := 0; i < 4; i++ {
			if left[i] > 0 {
				left[i]--
				sched = append(sched, i)
				rec()
				sched = sched[:len(sched)-1]
				left[i]++
			}
		}
	}
	rec()
	r.States += idx / c18Shards
	r.boundMax("max_schedules_enumerated", idx)
}

// ---------------------------------------------------------------------------
// repeated runs / after unrelated histories

// c18RepeatHistories: the schedule histories plus more that only the repeat job uses.
func c18RepeatHistories() [][]Action {
	hs := c18Histories()
	// more histories for this job: deposits by an ordinary and by a short (8-byte) account, sends
	// with empty and maximal bodies, registry updates with colliding keys
	hs = append(hs,
		[]Action{MkDeposit(UserA.Str, math.NewInt(5), DomEth, bytes.Repeat([]byte{0xFF}, 32), "uusdc"), MkSend(UserA.Str, DomEth, bytes.Repeat([]byte{0xFF}, 32), bytes.Repeat([]byte{0xFF}, 8000))},
		[]Action{MkDeposit(ShortAcct.Str, math.NewInt(3), DomEth, distinct32(0x24), "uusdc"), MkSend(ShortAcct.Str, DomEth, distinct32(0x21), nil), MkSendWithCaller(ShortAcct.Str, DomAvax, distinct32(0x21), []byte("x"), distinct32(0x22))},
		[]Action{
			Act("linkTokenPair(5,F0) by A3", &cctptypes.MsgLinkTokenPair{From: TokenCtl.Str, RemoteDomain: 5, RemoteToken: distinct32(0xF0), LocalToken: "UUSDC"}),
			Act("setMaxBurnAmountPerMessage(UUSDC,9) by A3", &cctptypes.MsgSetMaxBurnAmountPerMessage{From: TokenCtl.Str, LocalToken: "UUSDC", Amount: math.NewInt(9)}),
			MkDeposit(UserA.Str, math.NewInt(10), DomEth, distinct32(0x24), "uusdc"),
		})
	// one public key enabled under seven accepted spellings, then disabled spelling by spelling (round 6, C18r6-1:
	// a handler that collects the spellings in a Go map emits its events and store deletes in map order)
	k := Keys[2].Hex
	up := strings.ToUpper(k)
	half := strings.ToUpper(k[:len(k)/2]) + k[len(k)/2:]
	var many []Action
	spell := []string{k, "0x" + k, "0X" + k, up, "0x" + up, "0X" + up, "0x" + half}
	for _, s := range spell {
		many = append(many, Act(fmt.Sprintf("enableAttester(K3 as %.6s..%d) by A1", s, len(s)), &cctptypes.MsgEnableAttester{From: AttMgr.Str, Attester: s}))
	}
	for _, s := range spell {
		many = append(many, Act(fmt.Sprintf("disableAttester(K3 as %.6s..%d) by A1", s, len(s)), &cctptypes.MsgDisableAttester{From: AttMgr.Str, Attester: s}))
	}
	hs = append(hs, many)
	return hs
}

// C18Solo is `cctpmc c18solo <i>`: one history on a fresh instance in a fresh process.
func C18Solo(arg string) int {
	var i int
	fmt.Sscan(arg, &i)
	hs := c18RepeatHistories()
	if i < 0 || i >= len(hs) {
		return 2
	}
	bz, _ := json.Marshal(c18Solo(c18Scenario(), hs[i]))
	os.Stdout.Write(bz)
	return 0
}

func c18Repeat(r *Run) {
	scn := c18Scenario()
	hs := c18RepeatHistories()
	// the reference of every history comes from a FRESH PROCESS that runs nothing else
	exe, _ := os.Executable()
	ref := make([][]c18Obs, len(hs))
	for i := range hs {
		out, err := exec.Command(exe, "c18solo", fmt.Sprint(i)).Output()
		if err != nil || json.Unmarshal(out, &ref[i]) != nil || len(ref[i]) != len(hs[i]) {
			r.HarnessError("fresh-process reference for history %d failed: %v %.200s", i, err, out)
			return
		}
	}
	for rep := 0; rep < 16; rep++ {
		for i, h := range hs {
			// an unrelated history first (other worlds, same process)
			for j, h2 := range hs {
				if j != i {
					c18Solo(scn, h2)
				}
			}
			got := c18Solo(scn, h)
			r.Transitions += len(h)
			r.Evaluations++
			for s := range got {
				if got[s] != ref[i][s] {
					r.Violate("C18 replay of the same history in the same process differs", fmt.Sprintf("history %d step %d (%s), repetition %d:\n first: %+v\n now:   %+v", i, s, h[s].Desc, rep, ref[i][s], got[s]),
						scn.Replay("actions", h))
					return
				}
			}
			r.Class("repeat-ok")
		}
	}
	r.Distinct("repeat")
	r.Distinct("after-unrelated")
}

// ---------------------------------------------------------------------------
// free-running race pass (separate -race binary)

// RaceBodies is what `cctpmc racebodies` runs inside the -race binary.
func RaceBodies() int {
	scn := c18Scenario()
	hs := append(c18Histories(), c18RegistryHistories()...)
	ref := make([][]c18Obs, len(hs))
	for i, h := range hs {
		ref[i] = c18Solo(scn, h)
	}
	var wg sync.WaitGroup
	var mu sync.Mutex
	bad := 0
	body := func(mk func() *World, i int) {
		defer wg.Done()
		for rep := 0; rep < 6; rep++ {
			w := mk()
			for s, a := range hs[i] {
				ob := w.applyRaw(a)
				if ob != ref[i][s] {
					mu.Lock()
					bad++
					fmt.Printf("RACEPASS-DIVERGED history %d step %d: %+v vs %+v\n", i, s, ob, ref[i][s])
					mu.Unlock()
				}
			}
			w.queryStep()
		}
	}
	// separate keepers
	for g := 0; g < 12; g++ {
		wg.Add(1)
		go body(func() *World {
			w := NewPlainWorld(KindIAVL)
			w.InitLedger(scn.Ledger)
			w.InitCCTP(scn.Genesis)
			return w
		}, g%len(hs))
	}
	// one cctp keeper (and msg server) shared by all instances; every instance has its own
	// stores and its own auth/bank/fiattokenfactory keepers (see SharedCCTP)
	sc := NewSharedCCTP()
	for g := 0; g < 12; g++ {
		wg.Add(1)
		go body(func() *World {
			w := sc.NewInstance(KindIAVL)
			w.InitLedger(scn.Ledger)
			w.InitCCTP(scn.Genesis)
			return w
		}, g%len(hs))
	}
	wg.Wait()
	fmt.Printf("RACEPASS-DONE diverged=%d\n", bad)
	if bad > 0 {
		return 3
	}
	return 0
}

func c18RacePass(r *Run) {
	if os.Getenv("VERIF_SKIP_RACE") == "1" { // measuring tools only (seedtest.py for non-C18 seeds); never set by run.sh
		r.Note("race pass skipped by VERIF_SKIP_RACE")
		r.Truncate("race pass skipped by VERIF_SKIP_RACE")
		return
	}
	exe, _ := os.Executable()
	race := filepath.Join(filepath.Dir(exe), "cctpmc-race")
	if _, err := os.Stat(race); err != nil {
		r.HarnessError("race binary %s missing (build.sh builds it for C18)", race)
		return
	}
	cmd := exec.Command(race, "racebodies")
	cmd.Env = append(os.Environ(), "GORACE=halt_on_error=0 exitcode=0")
	var out bytes.Buffer
	cmd.Stdout, cmd.Stderr = &out, &out
	err := cmd.Run()
	text := out.String()
	r.Evaluations++
	r.Transitions += 16 * 6 * 3
	finished := strings.Contains(text, "RACEPASS-DONE")
	// data races involving repository frames
	reports := strings.Split(text, "WARNING: DATA RACE")
	n := 0
	for _, rep := range reports[1:] {
		if end := strings.Index(rep, "=================="); end > 0 {
			rep = rep[:end]
		}
		if c18RaceInRepo(rep) {
			n++
			if n <= 2 {
				fn := "?"
				if m := frameRe.FindStringSubmatch(rep); m != nil {
					fn = m[1] + "." + m[2]
				}
				r.Violate("C18 data race in "+fn, "free-running -race pass:\n"+firstLines(rep, 40), Replay{Kind: "schedule", Data: map[string]any{"race_report": firstLines(rep, 60)}})
			}
		}
	}
	if !finished {
		// the free-running bodies crashed: a crash inside x/cctp under concurrency is itself the finding
		tail := text
		if i := strings.LastIndex(text, "=================="); i >= 0 {
			tail = text[i:]
		}
		if m := frameRe.FindStringSubmatch(tail); m != nil && n == 0 {
			r.Violate("C18 concurrent instances crashed in "+m[1]+"."+m[2], "free-running pass aborted:\n"+firstLines(tail, 40), Replay{Kind: "schedule", Data: map[string]any{"output": firstLines(tail, 60)}})
		} else if n == 0 {
			r.HarnessError("race pass did not finish: %v\n%s", err, firstLines(tail, 30))
		}
	}
	if strings.Contains(text, "RACEPASS-DIVERGED") {
		r.Violate("C18 concurrent instances diverged from their solo runs", firstLines(text, 20), Replay{Kind: "schedule", Data: map[string]any{"output": firstLines(text, 40)}})
	}
	r.Extra["race_reports_total"] = len(reports) - 1
	r.Extra["race_reports_in_repository_code"] = n
	r.Class("race-pass")
	r.Distinct("race-pass")
}

// c18RaceInRepo: a report is attributed to the repository when, for one of the two
// accesses, the innermost non-runtime frame is a function of x/cctp, or when the
// racing location is a package-level variable of x/cctp. Races whose accesses
// are both inside dependencies (cosmos-sdk, fiattokenfactory) are counted but
// not reported: those packages are exercised, not verified.
func c18RaceInRepo(rep string) bool {
	// The instances of the race pass share only the cctp keeper object and package-level
	// state; their stores and dependency keepers are their own. A racing access whose
	// stack passes through a function of x/cctp therefore touches memory that x/cctp
	// shares between instances (a package-level variable, a keeper field, or something
	// reachable from them), whichever library performs the final load or store.
	blocks := strings.Split(rep, "\n\n")
	for _, b := range blocks {
		t := strings.TrimSpace(b)
		if !(strings.HasPrefix(t, "Write at") || strings.HasPrefix(t, "Read at") || strings.HasPrefix(t, "Previous write at") || strings.HasPrefix(t, "Previous read at")) {
			continue
		}
		for _, l := range strings.Split(t, "\n")[1:] {
			f := strings.TrimSpace(l)
			if strings.HasPrefix(f, "main.") {
				break
			}
			if strings.Contains(f, "noble-cctp/x/cctp") {
				return true
			}
		}
	}
	return false
}

// ---------------------------------------------------------------------------
// informational AST scan

func c18AST(r *Run) {
	repo := os.Getenv("VERIF_REPO")
	if repo == "" {
		repo = "/repo"
	}
	var findings []string
	for _, dir := range []string{"x/cctp/keeper", "x/cctp/types", "x/cctp"} {
		files, _ := filepath.Glob(filepath.Join(repo, dir, "*.go"))
		for _, f := range files {
			if strings.HasSuffix(f, "_test.go") || strings.HasSuffix(f, ".pb.go") || strings.HasSuffix(f, ".pb.gw.go") {
				continue
			}
			fset := token.NewFileSet()
			af, err := parser.ParseFile(fset, f, nil, 0)
			if err != nil {
				continue
			}
			rel, _ := filepath.Rel(repo, f)
			for _, d := range af.Decls {
				if gd, ok := d.(*ast.GenDecl); ok && gd.Tok == token.VAR {
					for _, sp := range gd.Specs {
						for _, n := range sp.(*ast.ValueSpec).Names {
							findings = append(findings, fmt.Sprintf("%s: package-level var %s", rel, n.Name))
						}
					}
				}
			}
			ast.Inspect(af, func(n ast.Node) bool {
				switch x := n.(type) {
				case *ast.GoStmt:
					findings = append(findings, fmt.Sprintf("%s:%d: go statement", rel, fset.Position(x.Pos()).Line))
				case *ast.SelectorExpr:
					if id, ok := x.X.(*ast.Ident); ok && (id.Name == "time" || id.Name == "rand") {
						findings = append(findings, fmt.Sprintf("%s:%d: %s.%s", rel, fset.Position(x.Pos()).Line, id.Name, x.Sel.Name))
					}
				case *ast.RangeStmt:
					if call, ok := x.X.(*ast.Ident); ok && strings.Contains(strings.ToLower(call.Name), "map") {
						findings = append(findings, fmt.Sprintf("%s:%d: range over %s", rel, fset.Position(x.Pos()).Line, call.Name))
					}
				}
				return true
			})
		}
	}
	r.Extra["ast_scan_informational"] = findings
	r.Evaluations++
}

func c18Finalize(m *Run) {}

// ---------------------------------------------------------------------------
// discarded-transaction non-interference

// queryDigest renders the answers of all query types (default requests and a
// few single-item keys, incl. non-canonical spellings).
func queryDigest(w *World) string {
	cctx, _ := w.ctx.CacheContext()
	k := w.K
	var sb strings.Builder
	p := func(v any, e error) { fmt.Fprintf(&sb, "%v/%v;", v, e) }
	p(k.Roles(cctx, &cctptypes.QueryRolesRequest{}))
	p(k.Attesters(cctx, &cctptypes.QueryAllAttestersRequest{}))
	p(k.PerMessageBurnLimits(cctx, &cctptypes.QueryAllPerMessageBurnLimitsRequest{}))
	p(k.TokenPairs(cctx, &cctptypes.QueryAllTokenPairsRequest{}))
	p(k.UsedNonces(cctx, &cctptypes.QueryAllUsedNoncesRequest{}))
	p(k.RemoteTokenMessengers(cctx, &cctptypes.QueryRemoteTokenMessengersRequest{}))
	p(k.BurningAndMintingPaused(cctx, &cctptypes.QueryGetBurningAndMintingPausedRequest{}))
	p(k.SendingAndReceivingMessagesPaused(cctx, &cctptypes.QueryGetSendingAndReceivingMessagesPausedRequest{}))
	p(k.MaxMessageBodySize(cctx, &cctptypes.QueryGetMaxMessageBodySizeRequest{}))
	p(k.NextAvailableNonce(cctx, &cctptypes.QueryGetNextAvailableNonceRequest{}))
	p(k.SignatureThreshold(cctx, &cctptypes.QueryGetSignatureThresholdRequest{}))
	for _, a := range []string{Keys[0].Hex, Keys[2].Hex, Keys[3].Hex} {
		p(k.Attester(cctx, &cctptypes.QueryGetAttesterRequest{Attester: a}))
	}
	p(k.PerMessageBurnLimit(cctx, &cctptypes.QueryGetPerMessageBurnLimitRequest{Denom: "uusdc"}))
	for _, t := range []string{hex.EncodeToString(RemoteToken0), strings.ToUpper(hex.EncodeToString(RemoteToken0)), "0x" + hex.EncodeToString(distinct32(0xF0))} {
		p(k.TokenPair(cctx, &cctptypes.QueryGetTokenPairRequest{RemoteDomain: 0, RemoteToken: t}))
		p(k.TokenPair(cctx, &cctptypes.QueryGetTokenPairRequest{RemoteDomain: 5, RemoteToken: t}))
	}
	for _, n := range []uint64{5, 60, 61} {
		p(k.UsedNonce(cctx, &cctptypes.QueryGetUsedNonceRequest{SourceDomain: 0, Nonce: n}))
	}
	for _, d := range []uint32{0, 1, 7, 8} {
		p(k.RemoteTokenMessenger(cctx, &cctptypes.QueryRemoteTokenMessengerRequest{DomainId: d}))
	}
	g := w.ExportCCTP()
	bz, _ := theCodec().MarshalJSON(g)
	sb.Write(bz)
	pend, has := k.GetPendingOwner(cctx)
	fmt.Fprintf(&sb, "pending=%s/%v", pend, has)
	return sb.String()
}

// c18NonInterference: a transaction executed on a branch that is then discarded
// (CheckTx / simulation / an earlier message of a failing multi-message
// transaction) must have no influence on any later transaction or query: for
// every ordered pair (s, q) of the C15 request menu, q after simulate(s) must be
// byte-identical (result, response, events, post-state) to q alone.
func c18NonInterference(r *Run, state string) {
	su := c15Build(r, state)
	base, menu := su.base, su.menu
	r.States++
	// every execution below runs on a FRESH world (fresh keeper objects) loaded with the
	// state, so that memory retained in a keeper by one execution cannot leak into the
	// reference of another
	fresh := func() *World {
		w := NewWorld(KindDB)
		w.Load(base)
		return w
	}
	refs := make([]string, len(menu))
	for i, q := range menu {
		w := fresh()
		o := w.Apply(q)
		refs[i] = o.Digest() + "|" + HashBytes(w.Dump())
	}
	refQ := queryDigest(fresh())
	for _, s := range menu {
		if r.Expired() {
			r.Truncate("C18 deadline in non-interference @" + state)
			return
		}
		rp := func(q *Action, exp, obs string) Replay {
			acts := append([]Action{}, su.pre...)
			x := su.scn.Replay("actions", acts)
			x.Kind = "schedule"
			x.Data = map[string]any{"state": state, "simulated_then_discarded": s.Desc, "simulated_wire": s.Hex, "simulated_type": s.Type}
			if q != nil {
				x.Data["then"] = q.Desc
				x.Data["then_wire"], x.Data["then_type"] = q.Hex, q.Type
			}
			x.Expected, x.Observed = exp, obs
			return x
		}
		w := fresh()
		so := w.Simulate(s)
		r.Transitions++
		if HashBytes(w.Dump()) != su.baseHash {
			r.Violate("C18 discarded transaction left effects in the store: "+handlerName(s.Type), fmt.Sprintf("[%s] %s: %v", state, s.Desc, DiffDumps(base, w.Dump())), rp(nil, "", ""))
			continue
		}
		if got := queryDigest(w); got != refQ {
			r.Violate("C18 queries depend on a discarded transaction: "+handlerName(s.Type),
				fmt.Sprintf("[%s] after simulating (and discarding) %s (%s) the query/export results changed:\n before: %.600s\n after:  %.600s", state, s.Desc, so.Class(), refQ, got), rp(nil, refQ, got))
		}
		for qi := range menu {
			q := menu[qi]
			w := fresh()
			w.Simulate(s)
			o := w.Apply(q)
			r.Transitions += 2
			r.Evaluations++
			got := o.Digest() + "|" + HashBytes(w.Dump())
			if got != refs[qi] {
				r.Violate(fmt.Sprintf("C18 result of %s depends on a discarded %s", handlerName(q.Type), handlerName(s.Type)),
					fmt.Sprintf("[%s] simulate-and-discard %s (%s), then %s:\n alone:          %.500s\n after simulate: %.500s", state, s.Desc, so.Class(), q.Desc, refs[qi], got), rp(&q, refs[qi], got))
				break
			}
		}
		r.Class("non-interference-ok")
		if so.OK {
			r.Distinct(state + "|sim " + s.Desc)
		}
	}
	r.Sample("non-interference", map[string]any{"state": state, "menu": len(menu), "pairs": len(menu) * len(menu)})
}

func init() {
	replayers["schedule"] = func(rp *Replay) int {
		fmt.Println(" data keys:", sortedKeys(rp.Data))
		if sw, ok := rp.Data["simulated_wire"].(string); ok {
			// discarded-transaction non-interference: q alone vs q after simulate-and-discard(s)
			mk := func() *World {
				w, err := rp.World(KindDB)
				if err != nil {
					panic(err)
				}
				for _, a := range rp.Actions {
					w.Apply(a)
				}
				return w
			}
			s := Action{Type: fmt.Sprint(rp.Data["simulated_type"]), Hex: sw, Desc: fmt.Sprint(rp.Data["simulated_then_discarded"])}
			w1 := mk()
			before := queryDigest(w1)
			so := w1.Simulate(s)
			fmt.Printf(" simulate-and-discard: %s -> %s %s\n", s.Desc, so.Class(), so.Err)
			fmt.Println(" queries unchanged by the discarded transaction:", before == queryDigest(w1))
			if qw, ok := rp.Data["then_wire"].(string); ok {
				q := Action{Type: fmt.Sprint(rp.Data["then_type"]), Hex: qw, Desc: fmt.Sprint(rp.Data["then"])}
				o1 := w1.Apply(q)
				w2 := mk()
				o2 := w2.Apply(q)
				fmt.Printf(" %s\n   alone:          %.300s\n   after simulate: %.300s\n   identical: %v\n", q.Desc, o2.Digest(), o1.Digest(), o1.Digest() == o2.Digest() && HashBytes(w1.Dump()) == HashBytes(w2.Dump()))
			}
			return 0
		}
		if sch, ok := rp.Data["schedule"].([]any); ok {
			fmt.Println(" schedule (instance per step; 3 = query-only instance):", sch, " shared keeper:", rp.Data["shared_keeper"], " diverged at step", rp.Data["diverged_at"])
			fmt.Println(" re-run with: ./run.sh check C18 quick   (the interleaving is re-enumerated deterministically)")
		}
		if rr, ok := rp.Data["race_report"]; ok {
			fmt.Println(rr)
		}
		return 0
	}
}

// c18RejectedRepeat: requests that are wrong in SEVERAL ways at once (attestations with two or three
// signatures that are each invalid for a different reason, in every order) are executed N times
// with the Go scheduler free-running on several processors: response, error and events must be the
// same every time.  Which of several errors is reported must not depend on scheduling.  (A
// randomised differential like the race pass: it samples the runtime scheduler.)
func c18RejectedRepeat(r *Run) {
	prev := runtime.GOMAXPROCS(8)
	defer runtime.GOMAXPROCS(prev)
	n := 1500
	if r.Tier == "thorough" {
		n = 12000
	}
	scn := c18Scenario()
	w := scn.Build(KindDB)
	r.States++
	m := InboundPlain(DomEth, 90, []byte("rejected in several ways"), nil)
	good := Keys[0].SignRSV(m)
	v2 := append([]byte{}, good...)
	v2[64] = 2
	other := Keys[1].SignRSV([]byte("another message"))
	unknown := Keys[5].SignRSV(m)
	zeros := make([]byte, 65)
	ffs := bytes.Repeat([]byte{0xFF}, 65)
	atoms := map[string][]byte{"zeros": zeros, "v=2": v2, "ff": ffs, "over-other-message": other, "unknown-key": unknown}
	names := sortedKeys(atoms)
	var reqs []Action
	for _, a := range names {
		for _, b := range names {
			if a != b {
				att := append(append([]byte{}, atoms[a]...), atoms[b]...)
				reqs = append(reqs, MkReceive(UserB.Str, m, att, "plain(0,90) attestation=["+a+","+b+"]"))
			}
		}
	}
	own := RefMsg(0, Noble, DomEth, 3, pad32(UserA.Addr), distinct32(0x21), Zero32, []byte("x"))
	reqs = append(reqs, MkReplaceMessage(UserA.Str, own, append(append([]byte{}, zeros...), v2...), []byte("y"), distinct32(0x23), "attestation=[zeros,v=2]"))
	for _, a := range reqs {
		first := ""
		for i := 0; i < n; i++ {
			o := w.Simulate(a)
			r.Evaluations++
			d := o.Digest()
			if i == 0 {
				first = d
				r.Distinct(a.Desc + "|" + o.Class())
				continue
			}
			if d != first {
				x := scn.Replay("actions", []Action{a})
				x.Expected, x.Observed = first, d
				r.Violate("C18 the same rejected request is answered differently from run to run", fmt.Sprintf("%s: run 0 %q, run %d %q", a.Desc, cut(first, 160), i, cut(d, 160)), x)
				break
			}
		}
	}
	r.Class("repeat-ok")
}

func cut(s string, n int) string {
	if len(s) > n {
		return s[:n] + "..."
	}
	return s
}

// c18RegistrySchedules: three instances write short keys of the SAME collections (burn limits,
// attesters, token pairs, messengers) -- all interleavings at transaction boundaries, each instance
// compared step by step with its solo run.  (Keys built by appending to a shared prefix, or any
// other buffer shared between keeper instances, corrupt the neighbour's store here.)
func c18RegistrySchedules(r *Run, shared bool) {
	scn := c18Scenario()
	hs := c18RegistryHistories()
	solo := make([][]c18Obs, len(hs))
	for i, h := range hs {
		solo[i] = c18Solo(scn, h)
	}
	left := make([]int, len(hs))
	total := 0
	for i, h := range hs {
		left[i] = len(h)
		total += len(h)
	}
	sched := make([]int, 0, total)
	n := 0
	var rec func()
	run := func() {
		base := scn.Build(KindIAVL)
		ws := []*World{base}
		for i := 1; i < len(hs); i++ {
			if shared {
				w := NewSharedWorld(base)
				w.InitLedger(scn.Ledger)
				w.InitCCTP(scn.Genesis)
				ws = append(ws, w)
			} else {
				ws = append(ws, scn.Build(KindIAVL))
			}
		}
		pos := make([]int, len(hs))
		for si, inst := range sched {
			a := hs[inst][pos[inst]]
			got, want := ws[inst].applyRaw(a), solo[inst][pos[inst]]
			pos[inst]++
			r.Transitions++
			if got != want {
				rp := Replay{Kind: "schedule", Ledger: &scn.Ledger, Genesis: GenesisJSON(scn.Genesis),
					Data:     map[string]any{"schedule": append([]int{}, sched...), "shared_keeper": shared, "job": "registry-keys", "diverged_at": si},
					Expected: fmt.Sprintf("%+v", want), Observed: fmt.Sprintf("%+v", got)}
				r.Violate("C18 instance diverged from its solo run (registry keys)",
					fmt.Sprintf("shared_keeper=%v schedule=%v step %d (instance %d: %s)\n solo:        %+v\n interleaved: %+v", shared, sched, si, inst, a.Desc, want, got), rp)
				return
			}
		}
		r.Class("schedule-ok")
		r.Distinct(fmt.Sprintf("registry|%v|%v", shared, sched))
	}
	rec = func() {
		if len(r.Violations) > 3 {
			return
		}
		if len(sched) == total {
			n++
			run()
			return
		}
		for i := range hs {
			if left[i] > 0 {
				left[i]--
				sched = append(sched, i)
				rec()
				sched = sched[:len(sched)-1]
				left[i]++
			}
		}
	}
	rec()
	r.States += n
}

// c18RegistryHistories: three histories writing short keys of the same collections.
func c18RegistryHistories() [][]Action {
	return [][]Action{
		{
			Act("setMaxBurnAmountPerMessage(uusdc,77) by A3", &cctptypes.MsgSetMaxBurnAmountPerMessage{From: TokenCtl.Str, LocalToken: "uusdc", Amount: math.NewInt(77)}),
			Act("enableAttester(\"04\") by A1", &cctptypes.MsgEnableAttester{From: AttMgr.Str, Attester: "04"}),
			MkDeposit(UserA.Str, math.NewInt(50), DomEth, distinct32(0x24), "uusdc"),
		},
		{
			Act("setMaxBurnAmountPerMessage(ueurc,5) by A3", &cctptypes.MsgSetMaxBurnAmountPerMessage{From: TokenCtl.Str, LocalToken: "ueurc", Amount: math.NewInt(5)}),
			Act("enableAttester(\"05\") by A1", &cctptypes.MsgEnableAttester{From: AttMgr.Str, Attester: "05"}),
			Act("addRemoteTokenMessenger(7) by A0", &cctptypes.MsgAddRemoteTokenMessenger{From: Owner.Str, DomainId: 7, Address: distinct32(0xE0)}),
		},
		{
			Act("setMaxBurnAmountPerMessage(uatom,6) by A3", &cctptypes.MsgSetMaxBurnAmountPerMessage{From: TokenCtl.Str, LocalToken: "uatom", Amount: math.NewInt(6)}),
			Act("addRemoteTokenMessenger(8) by A0", &cctptypes.MsgAddRemoteTokenMessenger{From: Owner.Str, DomainId: 8, Address: distinct32(0xE1)}),
			Act("linkTokenPair(5,F0) by A3", &cctptypes.MsgLinkTokenPair{From: TokenCtl.Str, RemoteDomain: 5, RemoteToken: distinct32(0xF0), LocalToken: "uusdc"}),
		},
	}
}
