package main

// Reference reading of the attestation rule (C01), independent of the
// implementation's verifier: recovery uses the pure-Go decred/btcec code, not
// go-ethereum's libsecp256k1 binding.

import (
	"bytes"
	"encoding/hex"
	"strings"

	btcecdsa "github.com/btcsuite/btcd/btcec/v2/ecdsa"
	"golang.org/x/crypto/sha3"
)

func refKeccak(b []byte) []byte {
	h := sha3.NewLegacyKeccak256()
	h.Write(b)
	return h.Sum(nil)
}

// refFromHex: the hex spellings accepted for a stored attester key
// (optional 0x/0X prefix, either case).
func refFromHex(s string) []byte {
	if strings.HasPrefix(s, "0x") || strings.HasPrefix(s, "0X") {
		s = s[2:]
	}
	if len(s)%2 == 1 {
		s = "0" + s
	}
	b, _ := hex.DecodeString(s)
	return b
}

// refRecover returns the 65-byte uncompressed public key recovered from one
// 65-byte [r||s||v] chunk over digest, or nil.
func refRecover(digest, chunk []byte) []byte {
	if len(chunk) != 65 {
		return nil
	}
	v := chunk[64]
	if v == 27 || v == 28 {
		v -= 27
	}
	if v > 1 {
		return nil
	}
	compact := make([]byte, 65)
	compact[0] = 27 + v
	copy(compact[1:], chunk[:64])
	pub, _, err := btcecdsa.RecoverCompact(compact, digest)
	if err != nil || pub == nil {
		return nil
	}
	return pub.SerializeUncompressed()
}

func refEthAddr(pub65 []byte) []byte { return refKeccak(pub65[1:])[12:] }

// RefVerify: accepted iff the attestation is exactly threshold-many 65-byte
// recoverable signatures over keccak256(message), each by a different enabled
// attester, in strictly increasing order of signer address.
func RefVerify(message, attestation []byte, enabled []string, threshold uint32) (bool, string) {
	if threshold == 0 {
		return false, "threshold 0"
	}
	if uint64(len(attestation)) != 65*uint64(threshold) {
		return false, "length != 65*threshold"
	}
	digest := refKeccak(message)
	var last []byte
	for i := 0; i < int(threshold); i++ {
		pub := refRecover(digest, attestation[i*65:(i+1)*65])
		if pub == nil {
			return false, "unrecoverable signature"
		}
		addr := refEthAddr(pub)
		if last != nil && bytes.Compare(last, addr) >= 0 {
			return false, "not strictly increasing / duplicate signer"
		}
		member := false
		for _, e := range enabled {
			if bytes.Equal(refFromHex(e), pub) {
				member = true
				break
			}
		}
		if !member {
			return false, "signer not enabled"
		}
		last = addr
	}
	return true, ""
}
