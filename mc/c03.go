package main

// C03 -- a message is received only when every acceptance condition holds.
// Full product of condition values: configurations are built by real admin
// transactions (and ledger variants), then every message of the product is
// submitted against each configuration.

import (
	"bytes"
	"fmt"
	"math/big"

	cctptypes "github.com/circlefin/noble-cctp/x/cctp/types"
)

func init() {
	register(&Check{
		ID:    "C03",
		Level: "model_checking",
		Rule: "full Cartesian product of acceptance-condition values: configuration (receive pause x mint pause x messenger registered x pair linked x mint-side state {ok, fiattokenfactory paused, allowance too small, recipient blacklisted, pair linked to a denom the factory does not mint}) " +
			"x message (attestation x header length x destination domain x version x nonce fresh/used x destination caller {zero, submitter, other, non-zero high 12 bytes with zero / submitter low 20 bytes} x recipient module/other x body shapes x sender match); " +
			"states = distinct (configuration, post-state) pairs reached, transitions = receives executed; distinct_nontrivial = distinct vectors of acceptance-condition truth values observed",
		Assumptions: []string{"a destination caller whose low 20 bytes name the submitter but whose high 12 bytes are non-zero is EITHER", "mint success is answered by dry-running the expected MsgMint on the real fiattokenfactory"},
		Jobs:        c03Jobs,
		Vacuity: func(m *Run) []string {
			if m.Classes["ok"] == 0 || m.Classes["error"] == 0 {
				return []string{"C03 vacuous"}
			}
			return nil
		},
	})
}

type c03Config struct {
	RecvPaused, MintPaused, Messenger, Linked bool
	MintEnv                                   int // 0 ok, 1 ftf paused, 2 allowance too small, 3 recipient blacklisted, 4 pair linked to a denom the token factory does not mint
	Src                                       uint32
	AttCfg                                    int // 0: K1,K2 threshold 2; 1: K1,K2,K3 threshold 1
}

func (c c03Config) String() string {
	return fmt.Sprintf("recvPaused=%v mintPaused=%v messenger=%v linked=%v mintEnv=%s src=%d att=%d", c.RecvPaused, c.MintPaused, c.Messenger, c.Linked,
		[]string{"ok", "ftf-paused", "allowance-small", "recipient-blacklisted", "pair-linked-to-other-denom"}[c.MintEnv], c.Src, c.AttCfg)
}

func c03Jobs(tier string) []Job {
	var jobs []Job
	bools := []bool{false, true}
	envs := []int{0, 1, 2, 3, 4}
	type sa struct {
		src uint32
		att int
	}
	extra := []sa{{DomEth, 0}}
	if tier == "thorough" {
		extra = []sa{{DomEth, 0}, {DomAvax, 0}, {DomEth, 1}, {DomAvax, 1}}
	}
	for _, rp := range bools {
		for _, mp := range bools {
			for _, ms := range bools {
				for _, ln := range bools {
					for _, env := range envs {
						for _, e := range extra {
							c := c03Config{rp, mp, ms, ln, env, e.src, e.att}
							jobs = append(jobs, Job{Name: "config " + c.String(), Run: func(r *Run) { c03Run(r, c) }})
						}
					}
				}
			}
		}
	}
	return jobs
}

func c03Run(r *Run, c c03Config) {
	g := BaseGenesis()
	g.TokenPairList = append(g.TokenPairList, cctptypes.TokenPair{RemoteDomain: DomAvax, RemoteToken: RemoteToken1, LocalToken: "uusdc"})
	signers := Keys[0:2]
	wrongSigners := []AttKey{Keys[0], Keys[2]}
	if c.AttCfg == 1 {
		g.AttesterList = []cctptypes.Attester{{Attester: Keys[0].Spell(1)}, {Attester: Keys[1].Hex}, {Attester: Keys[2].Spell(2)}}
		g.SignatureThreshold = &cctptypes.SignatureThreshold{Amount: 1}
		signers = Keys[2:3]
		wrongSigners = Keys[3:4]
	}
	src := c.Src
	messenger, token := RemoteMessenger0, RemoteToken0
	if src == DomAvax {
		messenger, token = RemoteMessenger1, RemoteToken1
	}
	lg := BaseLedger()
	mintTo := Outsider
	switch c.MintEnv {
	case 1:
		lg.FTFPaused = true
	case 2:
		lg.Allowance = "10"
	case 3:
		lg.Blacklisted = [][]byte{mintTo.Addr}
	case 4:
		for i := range g.TokenPairList {
			g.TokenPairList[i].LocalToken = "ueurc"
		}
	}
	scn := Scenario{Name: "c03", Ledger: lg, Genesis: g}
	w := scn.Build(KindDB)
	var pre []Action
	do := func(a Action) {
		o := w.Apply(a)
		pre = append(pre, a)
		if !o.OK {
			panic(preambleFailed{fmt.Sprintf("%s: %s%s", a.Desc, o.Err, o.PanicVal)})
		}
	}
	// a used nonce, established by a real receive: (0, 7)
	used := InboundPlain(src, 7, []byte("first"), nil)
	do(MkReceive(UserA.Str, used, Attest(used, signers), fmt.Sprintf("plain(%d,7)", src)))
	if !c.Messenger {
		do(Act("removeRemoteTokenMessenger(0) by A0", &cctptypes.MsgRemoveRemoteTokenMessenger{From: Owner.Str, DomainId: src}))
	}
	if !c.Linked {
		do(Act("unlinkTokenPair(0,token0) by A3", &cctptypes.MsgUnlinkTokenPair{From: TokenCtl.Str, RemoteDomain: src, RemoteToken: token, LocalToken: "uusdc"}))
	}
	if c.MintPaused {
		do(Act("pauseBurningAndMinting by A2", &cctptypes.MsgPauseBurningAndMinting{From: Pauser.Str}))
	}
	if c.RecvPaused {
		do(Act("pauseSendingAndReceiving by A2", &cctptypes.MsgPauseSendingAndReceivingMessages{From: Pauser.Str}))
	}
	base := w.Dump()
	view := ViewOf(w)
	r.States++
	seenPost := map[string]bool{}

	quick := false
	sub := UserB
	type attKind struct {
		name string
		mk   func(m []byte) []byte
	}
	atts := []attKind{
		{"valid", func(m []byte) []byte { return Attest(m, signers) }},
		{"wrong-signer", func(m []byte) []byte { return Attest(m, wrongSigners) }},
		{"short", func(m []byte) []byte { return Attest(m, signers)[:64] }},
	}
	dsts := []uint32{Noble, 0, 5}
	callers := []struct {
		name string
		b    []byte
	}{{"zero", Zero32}, {"submitter", pad32(sub.Addr)}, {"other", pad32(UserA.Addr)},
		{"high12-nonzero-low20-zero", append(bytes.Repeat([]byte{0x11}, 12), make([]byte, 20)...)},
		{"high12-nonzero-low20-submitter", append(bytes.Repeat([]byte{0x11}, 12), sub.Addr...)}}
	if quick {
		atts = atts[:2]
		dsts = dsts[:2]
		callers = []struct {
			name string
			b    []byte
		}{callers[0], callers[2], callers[1]}[:2]
	}
	type bodyKind struct {
		name      string
		recipient []byte
		sender    []byte
		body      []byte
	}
	amount := big.NewInt(42)
	goodBurn := RefBurn(0, token, pad32(mintTo.Addr), amount, distinct32(0x55))
	var bodies []bodyKind
	other := distinct32(0x77)
	plainLens := []int{0, 132, 9000}
	if quick {
		plainLens = []int{0, 132}
	}
	for _, n := range plainLens {
		bodies = append(bodies, bodyKind{fmt.Sprintf("other/%dB", n), other, distinct32(0x66), make([]byte, n)})
	}
	burnShapes := []struct {
		name string
		b    []byte
	}{
		{"burn132v0", goodBurn},
		{"burn131", goodBurn[:131]},
		{"burn132v0-amount0", RefBurn(0, token, pad32(mintTo.Addr), big.NewInt(0), distinct32(0x55))},                     // the token factory refuses to mint zero
		{"burn132v0-token-high12-differ", RefBurn(0, c03HighDiffer(token), pad32(mintTo.Addr), amount, distinct32(0x55))}, // not the linked token: only its low 20 bytes agree
		{"burn133", append(append([]byte{}, goodBurn...), 0)},
		{"burn132v1", RefBurn(1, token, pad32(mintTo.Addr), amount, distinct32(0x55))},
	}
	if quick {
		burnShapes = burnShapes[:4]
	}
	for _, bs := range burnShapes {
		bodies = append(bodies,
			bodyKind{"module/" + bs.name + "/sender-match", PaddedModule, messenger, bs.b},
			bodyKind{"module/" + bs.name + "/sender-mismatch", PaddedModule, distinct32(0x99), bs.b})
	}

	for _, at := range atts {
		for _, hdr := range []int{116, 115} {
			for _, dst := range dsts {
				for _, ver := range []uint32{0, 1} {
					for _, nonce := range []uint64{8, 7} {
						for _, cl := range callers {
							for _, bk := range bodies {
								if r.Expired() {
									r.Truncate("C03 deadline in " + c.String())
									return
								}
								m := RefMsg(ver, src, dst, nonce, bk.sender, bk.recipient, cl.b, bk.body)
								if hdr == 115 {
									m = m[:115]
								}
								desc := fmt.Sprintf("att=%s hdr=%d dst=%d ver=%d nonce=%d caller=%s %s", at.name, hdr, dst, ver, nonce, cl.name, bk.name)
								a := MkReceive(sub.Str, m, at.mk(m), desc)
								w.Load(base)
								p := Predict(w, view, a)
								o := w.Apply(a)
								r.Transitions++
								r.Class(o.Class())
								r.Distinct(p.Kind + ":" + p.CondKey() + fmt.Sprint(len(p.Conds)))
								path := append(append([]Action{}, pre...), a)
								post := w.Dump()
								ph := HashBytes(post)
								if !seenPost[ph] {
									seenPost[ph] = true
									r.States++
								}
								switch {
								case o.Panicked:
									r.Violate("C03 panic in receive", desc+": "+o.PanicVal, scn.Replay("actions", path))
								case ExpMismatch(p, o):
									rp := scn.Replay("actions", path)
									rp.Expected, rp.Observed = p.Exp.String()+" ("+p.Why+")", o.Class()+" "+o.Err
									fp := "C03 receive accepted although a condition is false"
									if p.Exp == MustSucceed {
										fp = "C03 receive rejected although every condition holds"
									}
									r.Violate(fp, fmt.Sprintf("[%s] %s: expected %s (%s), got %s %s", c, desc, p.Exp, p.Why, o.Class(), o.Err), rp)
								case !o.OK && ph != HashBytes(base):
									r.Violate("C03 rejected receive changed state", fmt.Sprintf("[%s] %s: %v", c, desc, DiffDumps(base, post)), scn.Replay("actions", path))
								case o.OK:
									resp, _ := o.Resp.(*cctptypes.MsgReceiveMessageResponse)
									mints := 0
									for _, d := range o.Deps {
										if d.Kind == "mint" && d.Err == "" {
											mints++
										}
									}
									wantMints := 0
									if p.Mint != nil {
										wantMints = 1
									}
									if resp == nil || !resp.Success {
										r.Violate("C03 successful receive does not report success", desc, scn.Replay("actions", path))
									} else if mints != wantMints || len(o.Deps) != wantMints {
										r.Violate("C03 wrong number of mints on an accepted receive", fmt.Sprintf("%s: deps %s", desc, depsStr(o.Deps)), scn.Replay("actions", path))
									} else if !ViewOf(w).Used[nonceKey(p.In.SourceDomain, p.In.Nonce)] {
										r.Violate("C03 accepted receive did not consume its nonce", desc, scn.Replay("actions", path))
									}
								}
								if !o.OK && !o.Panicked {
									// no nonce consumed (the state is byte-identical, checked above); nothing else to do
								}
								if len(r.Samples) < 4 && (o.OK || hdr == 115) {
									r.Sample("receive", map[string]any{"config": c.String(), "message": desc, "expected": p.Exp.String(), "why": p.Why, "observed": o.Class()})
								}
							}
						}
					}
				}
			}
		}
	}
}

// c03HighDiffer: the token with its first 12 bytes inverted (same low 20 bytes).
func c03HighDiffer(t []byte) []byte {
	out := append([]byte{}, t...)
	for i := 0; i < 12 && i < len(out); i++ {
		out[i] ^= 0xFF
	}
	return out
}
