package main

// C06 -- outbound messages carry exactly the requested content.
// Product per producing transaction type over destination domains, recipients,
// callers, bodies, amounts, mint recipients and submitters, at three history
// points; every MessageSent is decoded with the independent reference codec.

import (
	"bytes"
	"fmt"
	"math/big"

	"cosmossdk.io/math"
	sdk "github.com/cosmos/cosmos-sdk/types"

	cctptypes "github.com/circlefin/noble-cctp/x/cctp/types"

	"cctpmc/refcodec"
)

func init() {
	register(&Check{
		ID:    "C06",
		Level: "model_checking",
		Rule: "product per producing transaction type (send, send-with-caller, deposit, deposit-with-caller, replace-message, replace-deposit) over destination domains {0,1,4,256,2^32-1}, six 32-byte patterns for recipient/caller/mint recipient, " +
			"bodies of length {0,1,131,132,133,4096,7999,max}, amounts {1,2^64+1,whole balance}, 3 submitters, at 3 history points (fresh / after traffic / after a pause-unpause cycle); every MessageSent is reference-decoded and compared field by field " +
			"with the request, the response nonce and the DepositForBurn event; a replacement's event is compared with the original deposit's event; the deposit kinds also under a minting denom with upper-case letters; thorough extends every axis (13 destination domains each with a messenger, 32 positional patterns with a single 0xFF byte at each offset, every body length 0..140 and lengths around 256/1024/4096/limit) and takes the product with at most one axis outside its quick range; distinct_nontrivial = distinct successful cases checked",
		Assumptions: []string{"an empty destination caller in the DepositForBurn event of a caller-less deposit is identified with all-zero", "the deposit event's burn_token is constrained only through the replacement-equals-original clause"},
		Jobs:        c06Jobs,
		Vacuity: func(m *Run) []string {
			if m.Classes["content-checked"] == 0 || m.Classes["replacement-checked"] == 0 {
				return []string{fmt.Sprintf("C06 vacuous: %v", m.Classes)}
			}
			return nil
		},
	})
}

func c06Jobs(tier string) []Job {
	var jobs []Job
	for _, kind := range []string{"deposit", "depositWithCaller", "replace"} {
		kind := kind
		jobs = append(jobs, Job{Name: "content " + kind + " @minting-denom-uUSDC", Run: func(r *Run) { c06Run(r, "denom-uUSDC", kind) }})
	}
	for _, kind := range []string{"send", "sendWithCaller", "replace"} {
		kind := kind
		jobs = append(jobs, Job{Name: "content " + kind + " @max-body-20000", Run: func(r *Run) { c06Run(r, "max-body-20000", kind) }})
	}
	for _, hp := range []string{"fresh", "after-traffic", "after-pause-cycle"} {
		for _, kind := range []string{"send", "sendWithCaller", "deposit", "depositWithCaller", "replace"} {
			hp, kind := hp, kind
			jobs = append(jobs, Job{Name: "content " + kind + " @" + hp, Run: func(r *Run) { c06Run(r, hp, kind) }})
		}
	}
	return jobs
}

func c06Scenario() Scenario {
	g := BaseGenesis()
	g.TokenMessengerList = append(g.TokenMessengerList, cctptypes.RemoteTokenMessenger{DomainId: 1<<32 - 1, Address: distinct32(0xBA)},
		cctptypes.RemoteTokenMessenger{DomainId: 4, Address: distinct32(0xBB)}, cctptypes.RemoteTokenMessenger{DomainId: 256, Address: pad32(UserA.Addr)})
	lg := DefaultLedger()
	lg.Balances[UserA.Str] = bigPow2(66).String()
	lg.Balances[UserB.Str] = "5000"
	lg.Balances[Owner.Str] = "9"
	return Scenario{Name: "c06", Ledger: lg, Genesis: g}
}

func c06Run(r *Run, hp, kind string) {
	scn := c06Scenario()
	denom := "uusdc"
	if hp == "denom-uUSDC" { // the minting denom is a genesis matter; the burn token on the wire is keccak256 of its LOWER-CASED spelling
		denom = "uUSDC"
		scn.Ledger.MintingDenom = denom
	}
	c06ExtraDoms := []uint32{2, 3, 5, 255, 65535, 65536, 1<<31 - 1, 1 << 31}
	if r.Tier == "thorough" { // a token messenger for every destination domain of the thorough sweep
		scn.Genesis.TokenMessengerList = append([]cctptypes.RemoteTokenMessenger{}, scn.Genesis.TokenMessengerList...)
		for i, d := range c06ExtraDoms {
			scn.Genesis.TokenMessengerList = append(scn.Genesis.TokenMessengerList, cctptypes.RemoteTokenMessenger{DomainId: d, Address: distinct32(byte(0xD0 + i))})
		}
	}
	w := scn.Build(KindDB)
	signers := Keys[0:2]
	var pre []Action
	do := func(a Action) Outcome {
		o := w.Apply(a)
		pre = append(pre, a)
		if !o.OK {
			panic(preambleFailed{fmt.Sprintf("%s: %s%s", a.Desc, o.Err, o.PanicVal)})
		}
		return o
	}
	switch hp {
	case "after-traffic":
		do(MkSend(UserB.Str, 3, distinct32(0x31), []byte("x")))
		do(MkDeposit(UserB.Str, math.NewInt(10), DomEth, distinct32(0x32), denom))
		do(MkSendWithCaller(UserA.Str, 3, distinct32(0x31), []byte("y"), distinct32(0x33)))
		in := InboundBurn(DomEth, 4, big.NewInt(12), pad32(UserB.Addr), nil)
		do(MkReceive(UserB.Str, in, Attest(in, signers), "burn(0,4,12)"))
	case "max-body-20000":
		do(Act("updateMaxMessageBodySize(20000) by A0", &cctptypes.MsgUpdateMaxMessageBodySize{From: Owner.Str, MessageSize: 20000}))
	case "after-pause-cycle":
		do(Act("pauseSendingAndReceiving by A2", &cctptypes.MsgPauseSendingAndReceivingMessages{From: Pauser.Str}))
		do(Act("pauseBurningAndMinting by A2", &cctptypes.MsgPauseBurningAndMinting{From: Pauser.Str}))
		do(Act("unpauseSendingAndReceiving by A2", &cctptypes.MsgUnpauseSendingAndReceivingMessages{From: Pauser.Str}))
		do(Act("unpauseBurningAndMinting by A2", &cctptypes.MsgUnpauseBurningAndMinting{From: Pauser.Str}))
	}
	base := w.Dump()
	view := ViewOf(w)
	r.States++

	doms := []uint32{0, 1, 1<<32 - 1}
	pats := [][]byte{distinct32(0x41), bytes.Repeat([]byte{0xFF}, 32), pad32([]byte{1})}
	bodies := [][]byte{nil, {7}, bytes.Repeat([]byte{0x5A}, 132), func() []byte {
		b := make([]byte, 8000)
		for i := range b {
			b[i] = byte(i * 13)
		}
		return b
	}()}
	subs := []Account{UserA, UserB, Owner}
	{
		pats = append(pats, pad32(UserB.Addr), append(bytes.Repeat([]byte{0}, 31), 0x80), distinct32(0x9E))
		mk := func(n int, mul byte) []byte {
			b := make([]byte, n)
			for i := range b {
				b[i] = byte(i)*mul + 1
			}
			return b
		}
		bodies = append(bodies, mk(131, 3), mk(133, 5), mk(4096, 7), mk(7999, 11))
		doms = append(doms, 4, 256)
	}

	if hp == "max-body-20000" { // the owner raised the limit: bodies beyond the genesis default of 8000 are legal now
		for _, n := range []int{8001, 12345, 20000} {
			b := make([]byte, n)
			for i := range b {
				b[i] = byte(i*3 + n)
			}
			bodies = append(bodies, b)
		}
	}
	qd, qp, qb := len(doms), len(pats), len(bodies)
	// thorough extends each axis; the product is then taken with AT MOST ONE axis outside its quick
	// range (every extended value of every axis meets every quick value of all other axes)
	ext := func(flags ...bool) bool {
		n := 0
		for _, f := range flags {
			if f {
				n++
			}
		}
		return n > 1
	}
	if r.Tier == "thorough" {
		// positional patterns: one 0xFF byte at every position of a 32-byte field (an offset or
		// length mistake in any field shows as a moved byte); every body length 0..140 and the
		// lengths around powers of two and around the limit; more destination domains
		for i := 0; i < 32; i += 1 {
			p := make([]byte, 32)
			p[i] = 0xFF
			pats = append(pats, p)
		}
		mkb := func(n int) []byte {
			b := make([]byte, n)
			for i := range b {
				b[i] = byte(i*7 + n)
			}
			return b
		}
		for n := 2; n <= 140; n++ {
			if n != 131 && n != 132 && n != 133 {
				bodies = append(bodies, mkb(n))
			}
		}
		for _, n := range []int{255, 256, 257, 1023, 1024, 1025, 4095, 4097, 7998} {
			bodies = append(bodies, mkb(n))
		}
		doms = append(doms, c06ExtraDoms...)
	}

	check := func(a Action) (Outcome, Pred, bool) {
		w.Load(base)
		p := Predict(w, view, a)
		o := w.Apply(a)
		r.Transitions++
		r.Class(o.Class())
		path := append(append([]Action{}, pre...), a)
		rp := func(exp, obs string) Replay {
			x := scn.Replay("actions", path)
			x.Expected, x.Observed = exp, obs
			return x
		}
		if o.Panicked {
			r.Violate("C06 panic", a.Desc+": "+o.PanicVal, rp("", ""))
			return o, p, false
		}
		if !o.OK {
			return o, p, false
		}
		if p.Sent == nil {
			// accepted although the reference model refuses it: whatever was emitted cannot carry
			// "exactly the requested" fields if a requested field does not have its wire size
			if bad := c06UncarriableField(a); bad != "" {
				r.Violate("C06 message emitted for a request whose "+bad+" cannot be carried exactly", a.Desc, rp("no message", "ok"))
			}
			return o, p, false
		}
		sent := MessageSentOf(o.Events)
		if len(sent) != 1 || p.Sent == nil {
			r.Violate("C06 producing transaction did not emit exactly one MessageSent", fmt.Sprintf("%s: %d", a.Desc, len(sent)), rp("1", fmt.Sprint(len(sent))))
			return o, p, false
		}
		dm, err := refcodec.DecodeMessage(sent[0])
		if err != nil {
			r.Violate("C06 emitted message is not a well-formed CCTP message", a.Desc, rp("", fmt.Sprintf("%x", sent[0])))
			return o, p, false
		}
		// the nonce is judged against the response below (the counter itself is C07's subject,
		// the nonce of a replacement C09's)
		exp := *p.Sent
		exp.Nonce = dm.Nonce
		if !refMsgEqual(dm, &exp) {
			fp := "C06 emitted message differs from the request: " + c06FirstDiff(dm, &exp)
			r.Violate(fp, fmt.Sprintf("%s:\n emitted  %s\n expected %s", a.Desc, refMsgStr(dm), refMsgStr(&exp)), rp(refMsgStr(&exp), refMsgStr(dm)))
			return o, p, false
		}
		if p.Nonce != nil {
			var got uint64
			switch x := o.Resp.(type) {
			case *cctptypes.MsgSendMessageResponse:
				got = x.Nonce
			case *cctptypes.MsgSendMessageWithCallerResponse:
				got = x.Nonce
			case *cctptypes.MsgDepositForBurnResponse:
				got = x.Nonce
			case *cctptypes.MsgDepositForBurnWithCallerResponse:
				got = x.Nonce
			}
			if got != dm.Nonce {
				r.Violate("C06 response nonce differs from the nonce in the emitted message", fmt.Sprintf("%s: response %d, message %d", a.Desc, got, dm.Nonce), rp(fmt.Sprint(dm.Nonce), fmt.Sprint(got)))
			}
		}
		r.Class("content-checked")
		r.Distinct(a.Desc + "@" + hp)
		return o, p, true
	}
	depositEvent := func(o Outcome) (*cctptypes.DepositForBurn, int) {
		var ev *cctptypes.DepositForBurn
		n := 0
		for _, e := range TypedEvents(o.Events) {
			if x, ok := e.(*cctptypes.DepositForBurn); ok {
				ev = x
				n++
			}
		}
		return ev, n
	}
	checkDepositEvent := func(a Action, o Outcome, p Pred, depositor string, amt *big.Int, mintRecipient []byte, dst uint32, caller []byte) *cctptypes.DepositForBurn {
		path := append(append([]Action{}, pre...), a)
		rp := func(exp, obs string) Replay {
			x := scn.Replay("actions", path)
			x.Expected, x.Observed = exp, obs
			return x
		}
		ev, n := depositEvent(o)
		if n != 1 {
			r.Violate("C06 deposit did not emit exactly one DepositForBurn event", fmt.Sprintf("%s: %d", a.Desc, n), rp("1", fmt.Sprint(n)))
			return nil
		}
		callerOK := bytes.Equal(ev.DestinationCaller, caller) || (len(ev.DestinationCaller) == 0 && bytes.Equal(caller, Zero32)) || (len(caller) == 0 && bytes.Equal(ev.DestinationCaller, Zero32))
		if ev.Nonce != sentNonce(o) || ev.Amount.IsNil() || ev.Amount.BigInt().Cmp(amt) != 0 || ev.Depositor != depositor || !bytes.Equal(ev.MintRecipient, mintRecipient) ||
			ev.DestinationDomain != dst || !bytes.Equal(ev.DestinationTokenMessenger, p.Sent.Recipient) || !callerOK {
			want := fmt.Sprintf("nonce=%d amount=%s depositor=%s mintRecipient=%x dst=%d messenger=%x caller=%x", sentNonce(o), amt, depositor, mintRecipient, dst, p.Sent.Recipient, caller)
			r.Violate("C06 DepositForBurn event differs from the request / emitted message", fmt.Sprintf("%s:\n event    %v\n expected %s", a.Desc, ev, want), rp(want, ev.String()))
			return nil
		}
		return ev
	}

	callers := append(append(append([][]byte{}, pats[:qp]...), pats[0][:20], append(append([]byte{}, pats[0]...), 9)), pats[qp:]...)
	qc := qp + 2
	switch kind {
	case "send", "sendWithCaller":
		for _, s := range subs {
			for di, d := range doms {
				for ri, rc := range pats {
					for bi, body := range bodies {
						if ext(di >= qd, ri >= qp, bi >= qb) {
							continue
						}
						if kind == "send" {
							a := MkSend(s.Str, d, rc, body)
							a.Desc = fmt.Sprintf("send(dst=%d,recipient#%d,body#%d) by %s", d, ri, bi, s.Name)
							check(a)
							continue
						}
						for ci, cl := range callers {
							if ext(di >= qd, ri >= qp, bi >= qb, ci >= qc) {
								continue
							}
							a := MkSendWithCaller(s.Str, d, rc, body, cl)
							a.Desc = fmt.Sprintf("sendWithCaller(dst=%d,recipient#%d,body#%d,caller#%d) by %s", d, ri, bi, ci, s.Name)
							check(a)
						}
					}
				}
			}
		}
	case "deposit", "depositWithCaller":
		for _, s := range subs {
			bal := w.Balance(s.Addr, denom)
			amts := []math.Int{math.NewInt(1), bal}
			if s.Str == UserA.Str {
				amts = append(amts, intFromBig(new(big.Int).Add(bigPow2(64), big.NewInt(1))))
			}
			for _, amt := range amts {
				for di, d := range doms {
					for ri, rc := range pats {
						if ext(di >= qd, ri >= qp) {
							continue
						}
						if kind == "deposit" {
							a := MkDeposit(s.Str, amt, d, rc, denom)
							a.Desc = fmt.Sprintf("deposit(%s,dst=%d,recipient#%d) by %s", amt, d, ri, s.Name)
							if o, p, ok := check(a); ok {
								checkDepositEvent(a, o, p, s.Str, amt.BigInt(), rc, d, Zero32)
							}
							continue
						}
						for ci, cl := range callers {
							if ext(di >= qd, ri >= qp, ci >= qc) {
								continue
							}
							a := MkDepositWithCaller(s.Str, amt, d, rc, denom, cl)
							a.Desc = fmt.Sprintf("depositWithCaller(%s,dst=%d,recipient#%d,caller#%d) by %s", amt, d, ri, ci, s.Name)
							if o, p, ok := check(a); ok {
								checkDepositEvent(a, o, p, s.Str, amt.BigInt(), rc, d, cl)
							}
						}
					}
				}
			}
		}
	case "replace":
		// originals produced here, then replaced with every new-field combination
		for _, s := range []Account{UserA, UserB} {
			for _, d := range doms[:qd] {
				w.Load(base)
				o1 := w.Apply(MkSendWithCaller(s.Str, d, pats[0], bodies[2], pats[1]))
				o2 := w.Apply(MkDepositWithCaller(s.Str, math.NewInt(3), d, pats[0], denom, pats[1]))
				if !o1.OK || !o2.OK {
					r.HarnessError("replace originals failed: %s %s", o1.Err, o2.Err)
					continue
				}
				origEv, _ := depositEvent(o2)
				origSend, origDep := MessageSentOf(o1.Events)[0], MessageSentOf(o2.Events)[0]
				mid := w.Dump()
				midView := ViewOf(w)
				midPre := append(append([]Action{}, pre...), MkSendWithCaller(s.Str, d, pats[0], bodies[2], pats[1]), MkDepositWithCaller(s.Str, math.NewInt(3), d, pats[0], denom, pats[1]))
				saveBase, saveView, savePre := base, view, pre
				base, view, pre = mid, midView, midPre
				rcallers := append(append(append([][]byte{}, pats[:qp]...), Zero32, nil), pats[qp:]...)
				for bi, body := range bodies {
					for ci, cl := range rcallers {
						if ext(bi >= qb, ci >= qc) {
							continue
						}
						a := MkReplaceMessage(s.Str, origSend, Attest(origSend, signers), body, cl, "own message")
						a.Desc = fmt.Sprintf("replaceMessage(dst=%d,body#%d,caller#%d) by %s", d, bi, ci, s.Name)
						check(a)
					}
				}
				// an attested original that claims message version 1 (nothing validates the version of an
				// original): whatever is emitted for it must still be a version-0 message
				v1 := RefMsg(1, Noble, d, 1<<40, pad32(s.Addr), pats[0], pats[1], bodies[2])
				for bi, body := range bodies[:qb] {
					a := MkReplaceMessage(s.Str, v1, Attest(v1, signers), body, pats[2], "version-1 original")
					a.Desc = fmt.Sprintf("replaceMessage(version-1 original,dst=%d,body#%d) by %s", d, bi, s.Name)
					check(a)
				}
				for ri, rc := range pats {
					for ci, cl := range rcallers {
						if ext(ri >= qp, ci >= qc) {
							continue
						}
						a := MkReplaceDeposit(s.Str, origDep, Attest(origDep, signers), cl, rc, "own deposit")
						a.Desc = fmt.Sprintf("replaceDeposit(dst=%d,recipient#%d,caller#%d) by %s", d, ri, ci, s.Name)
						o, p, ok := check(a)
						if !ok {
							continue
						}
						ev := checkDepositEvent(a, o, p, s.Str, big.NewInt(3), rc, d, cl)
						if ev == nil || origEv == nil {
							continue
						}
						r.Class("replacement-checked")
						if ev.BurnToken != origEv.BurnToken {
							x := scn.Replay("actions", append(append([]Action{}, pre...), a))
							x.Expected, x.Observed = origEv.BurnToken, ev.BurnToken
							r.Violate("C06 replacement DepositForBurn event names a different burn token than the original deposit's event",
								fmt.Sprintf("%s: original event burn_token=%s, replacement event burn_token=%s", a.Desc, origEv.BurnToken, ev.BurnToken), x)
						}
					}
				}
				base, view, pre = saveBase, saveView, savePre
			}
		}
	}
	if len(r.Samples) < 2 {
		r.Sample("content", map[string]any{"kind": kind, "history_point": hp, "transitions": r.Transitions})
	}
	_ = sdk.AccAddress{}
}

func c06FirstDiff(a, b *refcodec.Message) string {
	switch {
	case a.Version != b.Version:
		return "version"
	case a.SourceDomain != b.SourceDomain:
		return "source domain"
	case a.DestinationDomain != b.DestinationDomain:
		return "destination domain"
	case a.Nonce != b.Nonce:
		return "nonce"
	case !bytes.Equal(a.Sender, b.Sender):
		return "sender"
	case !bytes.Equal(a.Recipient, b.Recipient):
		return "recipient"
	case !bytes.Equal(a.DestinationCaller, b.DestinationCaller):
		return "destination caller"
	case !bytes.Equal(a.Body, b.Body):
		if len(a.Body) == 132 && len(b.Body) == 132 {
			x, _ := refcodec.DecodeBurn(a.Body)
			y, _ := refcodec.DecodeBurn(b.Body)
			switch {
			case x.Version != y.Version:
				return "burn body version"
			case !bytes.Equal(x.BurnToken, y.BurnToken):
				return "burn body token"
			case !bytes.Equal(x.MintRecipient, y.MintRecipient):
				return "burn body mint recipient"
			case x.Amount.Cmp(y.Amount) != 0:
				return "burn body amount"
			default:
				return "burn body depositor"
			}
		}
		return "body"
	}
	return "?"
}

// sentNonce: the nonce carried by the (single) MessageSent of an outcome.
func sentNonce(o Outcome) uint64 {
	if ms := MessageSentOf(o.Events); len(ms) == 1 {
		if dm, err := refcodec.DecodeMessage(ms[0]); err == nil {
			return dm.Nonce
		}
	}
	return 0
}

// c06UncarriableField names a requested 32-byte field that does not have 32 bytes.
func c06UncarriableField(a Action) string {
	switch x := mustDecode(a).(type) {
	case *cctptypes.MsgSendMessageWithCaller:
		if len(x.DestinationCaller) != 32 {
			return "destination caller"
		}
		if len(x.Recipient) != 32 {
			return "recipient"
		}
	case *cctptypes.MsgSendMessage:
		if len(x.Recipient) != 32 {
			return "recipient"
		}
	case *cctptypes.MsgDepositForBurnWithCaller:
		if len(x.DestinationCaller) != 32 {
			return "destination caller"
		}
		if len(x.MintRecipient) != 32 {
			return "mint recipient"
		}
	case *cctptypes.MsgDepositForBurn:
		if len(x.MintRecipient) != 32 {
			return "mint recipient"
		}
	}
	return ""
}
