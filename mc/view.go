package main

// The implementation's state as seen through its public surface:
// ExportGenesis, the exported GetPendingOwner, and the gRPC queries.

import (
	"encoding/hex"
	"fmt"
	"sort"
	"strings"

	"github.com/cosmos/cosmos-sdk/types/query"

	cctptypes "github.com/circlefin/noble-cctp/x/cctp/types"
)

type View struct {
	Owner, Pending, AttMgr, Pauser, TokenCtl string
	HasPending                               bool
	Attesters                                []string // in store order
	Threshold                                uint32
	HasThreshold                             bool
	BurnPaused, SendPaused                   bool
	MaxBody                                  uint64
	NextNonce                                uint64
	Limits                                   map[string]string // denom -> amount
	Pairs                                    map[string]string // "domain/tokenhex" -> local
	Messengers                               map[uint32]string // domain -> hex
	Used                                     map[string]bool   // "domain/nonce"
}

func pairKey(domain uint32, token []byte) string {
	return fmt.Sprintf("%d/%s", domain, hex.EncodeToString(token))
}

func nonceKey(domain uint32, nonce uint64) string { return fmt.Sprintf("%d/%d", domain, nonce) }

func ViewOfGenesis(g *cctptypes.GenesisState) View {
	v := View{
		Owner: g.Owner, AttMgr: g.AttesterManager, Pauser: g.Pauser, TokenCtl: g.TokenController,
		Limits: map[string]string{}, Pairs: map[string]string{}, Messengers: map[uint32]string{}, Used: map[string]bool{},
	}
	for _, a := range g.AttesterList {
		v.Attesters = append(v.Attesters, a.Attester)
	}
	if g.SignatureThreshold != nil {
		v.Threshold, v.HasThreshold = g.SignatureThreshold.Amount, true
	}
	if g.BurningAndMintingPaused != nil {
		v.BurnPaused = g.BurningAndMintingPaused.Paused
	}
	if g.SendingAndReceivingMessagesPaused != nil {
		v.SendPaused = g.SendingAndReceivingMessagesPaused.Paused
	}
	if g.MaxMessageBodySize != nil {
		v.MaxBody = g.MaxMessageBodySize.Amount
	}
	if g.NextAvailableNonce != nil {
		v.NextNonce = g.NextAvailableNonce.Nonce
	}
	for _, l := range g.PerMessageBurnLimitList {
		v.Limits[l.Denom] = l.Amount.String()
	}
	for _, p := range g.TokenPairList {
		v.Pairs[pairKey(p.RemoteDomain, p.RemoteToken)] = p.LocalToken
	}
	for _, m := range g.TokenMessengerList {
		v.Messengers[m.DomainId] = hex.EncodeToString(m.Address)
	}
	for _, n := range g.UsedNoncesList {
		v.Used[nonceKey(n.SourceDomain, n.Nonce)] = true
	}
	return v
}

// ViewOf reads the world through ExportGenesis + GetPendingOwner (discarded branch).
func ViewOf(w *World) View {
	g := w.ExportCCTP()
	v := ViewOfGenesis(g)
	cctx, _ := w.ctx.CacheContext()
	v.Pending, v.HasPending = w.K.GetPendingOwner(cctx)
	// an entry exists if ANY public read path shows it: the keyed lists are the union of the
	// export and the paginated list queries (whether the two paths agree with each other is
	// the business of C17 and C19, not of every check that merely needs to know the state)
	page := func(f func(req *query.PageRequest) (*query.PageResponse, error)) {
		var next []byte
		for i := 0; i < 1000; i++ {
			res, err := f(&query.PageRequest{Key: next, Limit: 100})
			if err != nil || res == nil || len(res.NextKey) == 0 {
				return
			}
			next = res.NextKey
		}
	}
	page(func(req *query.PageRequest) (*query.PageResponse, error) {
		r, err := w.K.UsedNonces(cctx, &cctptypes.QueryAllUsedNoncesRequest{Pagination: req})
		if err != nil {
			return nil, err
		}
		for _, n := range r.UsedNonces {
			v.Used[nonceKey(n.SourceDomain, n.Nonce)] = true
		}
		return r.Pagination, nil
	})
	page(func(req *query.PageRequest) (*query.PageResponse, error) {
		r, err := w.K.Attesters(cctx, &cctptypes.QueryAllAttestersRequest{Pagination: req})
		if err != nil {
			return nil, err
		}
		for _, a := range r.Attesters {
			if !v.hasAttester(a.Attester) {
				v.Attesters = append(v.Attesters, a.Attester)
			}
		}
		return r.Pagination, nil
	})
	page(func(req *query.PageRequest) (*query.PageResponse, error) {
		r, err := w.K.PerMessageBurnLimits(cctx, &cctptypes.QueryAllPerMessageBurnLimitsRequest{Pagination: req})
		if err != nil {
			return nil, err
		}
		for _, l := range r.BurnLimits {
			if _, ok := v.Limits[l.Denom]; !ok {
				v.Limits[l.Denom] = l.Amount.String()
			}
		}
		return r.Pagination, nil
	})
	page(func(req *query.PageRequest) (*query.PageResponse, error) {
		r, err := w.K.TokenPairs(cctx, &cctptypes.QueryAllTokenPairsRequest{Pagination: req})
		if err != nil {
			return nil, err
		}
		for _, p := range r.TokenPairs {
			if _, ok := v.Pairs[pairKey(p.RemoteDomain, p.RemoteToken)]; !ok {
				v.Pairs[pairKey(p.RemoteDomain, p.RemoteToken)] = p.LocalToken
			}
		}
		return r.Pagination, nil
	})
	page(func(req *query.PageRequest) (*query.PageResponse, error) {
		r, err := w.K.RemoteTokenMessengers(cctx, &cctptypes.QueryRemoteTokenMessengersRequest{Pagination: req})
		if err != nil {
			return nil, err
		}
		for _, m := range r.RemoteTokenMessengers {
			if _, ok := v.Messengers[m.DomainId]; !ok {
				v.Messengers[m.DomainId] = hex.EncodeToString(m.Address)
			}
		}
		return r.Pagination, nil
	})
	return v
}

// ExportView is the view through ExportGenesis alone (what C17 judges).
func ExportView(w *World) View {
	v := ViewOfGenesis(w.ExportCCTP())
	cctx, _ := w.ctx.CacheContext()
	v.Pending, v.HasPending = w.K.GetPendingOwner(cctx)
	return v
}

// String is a canonical rendering (used for equality and reports).
func (v View) String() string {
	var sb strings.Builder
	fmt.Fprintf(&sb, "owner=%s pending=%s(%v) attmgr=%s pauser=%s tokenctl=%s thr=%d(%v) burnP=%v sendP=%v maxBody=%d next=%d",
		acctName(v.Owner), acctName(v.Pending), v.HasPending, acctName(v.AttMgr), acctName(v.Pauser), acctName(v.TokenCtl),
		v.Threshold, v.HasThreshold, v.BurnPaused, v.SendPaused, v.MaxBody, v.NextNonce)
	att := append([]string{}, v.Attesters...)
	sort.Strings(att)
	fmt.Fprintf(&sb, " attesters=%v", shortAtts(att))
	fmt.Fprintf(&sb, " limits=%v", mapStr(v.Limits))
	fmt.Fprintf(&sb, " pairs=%v", mapStr(v.Pairs))
	ms := map[string]string{}
	for d, a := range v.Messengers {
		ms[fmt.Sprint(d)] = a
	}
	fmt.Fprintf(&sb, " messengers=%v", mapStr(ms))
	us := []string{}
	for k := range v.Used {
		us = append(us, k)
	}
	sort.Strings(us)
	fmt.Fprintf(&sb, " used=%v", us)
	return sb.String()
}

func mapStr(m map[string]string) string {
	ks := sortedKeys(m)
	var parts []string
	for _, k := range ks {
		parts = append(parts, k+"="+m[k])
	}
	return "{" + strings.Join(parts, ",") + "}"
}

func attName(s string) string {
	for _, k := range Keys {
		for sp := 0; sp < 3; sp++ {
			if k.Spell(sp) == s {
				return fmt.Sprintf("%s/%d", k.Name, sp)
			}
		}
	}
	if len(s) > 12 {
		return s[:12] + "…"
	}
	return fmt.Sprintf("%q", s)
}

func shortAtts(a []string) []string {
	out := make([]string, len(a))
	for i, s := range a {
		out[i] = attName(s)
	}
	return out
}

// ---------------------------------------------------------------------------
// gRPC query helpers (each on a discarded branch)

func (w *World) QAttesters() ([]string, error) {
	cctx, _ := w.ctx.CacheContext()
	var out []string
	var next []byte
	for {
		resp, err := w.K.Attesters(cctx, &cctptypes.QueryAllAttestersRequest{Pagination: &query.PageRequest{Key: next, Limit: 100}})
		if err != nil {
			return nil, err
		}
		for _, a := range resp.Attesters {
			out = append(out, a.Attester)
		}
		if resp.Pagination == nil || len(resp.Pagination.NextKey) == 0 {
			return out, nil
		}
		next = resp.Pagination.NextKey
	}
}

func (w *World) QThreshold() (uint32, error) {
	cctx, _ := w.ctx.CacheContext()
	resp, err := w.K.SignatureThreshold(cctx, &cctptypes.QueryGetSignatureThresholdRequest{})
	if err != nil {
		return 0, err
	}
	return resp.Amount.Amount, nil
}
