package main

// World: one real chain state -- the real x/auth, x/bank, noble-fiattokenfactory
// and x/cctp keepers over a CommitMultiStore. See DESIGN.md section 2.1.

import (
	"bytes"
	"context"
	"crypto/sha256"
	"encoding/binary"
	"encoding/hex"
	"fmt"
	"sort"
	"time"

	"cosmossdk.io/log"
	"cosmossdk.io/math"
	"cosmossdk.io/store"
	"cosmossdk.io/store/metrics"
	storetypes "cosmossdk.io/store/types"
	cmtproto "github.com/cometbft/cometbft/proto/tendermint/types"
	dbm "github.com/cosmos/cosmos-db"
	"github.com/cosmos/cosmos-sdk/codec"
	addresscodec "github.com/cosmos/cosmos-sdk/codec/address"
	codectypes "github.com/cosmos/cosmos-sdk/codec/types"
	cryptocodec "github.com/cosmos/cosmos-sdk/crypto/codec"
	"github.com/cosmos/cosmos-sdk/runtime"
	sdk "github.com/cosmos/cosmos-sdk/types"
	authkeeper "github.com/cosmos/cosmos-sdk/x/auth/keeper"
	authtypes "github.com/cosmos/cosmos-sdk/x/auth/types"
	bankkeeper "github.com/cosmos/cosmos-sdk/x/bank/keeper"
	banktypes "github.com/cosmos/cosmos-sdk/x/bank/types"

	ftfkeeper "github.com/circlefin/noble-fiattokenfactory/x/fiattokenfactory/keeper"
	ftftypes "github.com/circlefin/noble-fiattokenfactory/x/fiattokenfactory/types"

	cctp "github.com/circlefin/noble-cctp/x/cctp"
	cctpkeeper "github.com/circlefin/noble-cctp/x/cctp/keeper"
	cctptypes "github.com/circlefin/noble-cctp/x/cctp/types"
)

const Bech32Prefix = "noble"

var cfgDone = false

// ensureConfig sets the bech32 prefix; called from package-level initialisers
// (which run before init functions) and from NewWorld.
func ensureConfig() {
	if cfgDone {
		return
	}
	cfgDone = true
	cfg := sdk.GetConfig()
	cfg.SetBech32PrefixForAccount(Bech32Prefix, Bech32Prefix+"pub")
	cfg.Seal()
}

// store indices, fixed order
const (
	stCCTP = iota
	stAcc
	stBank
	stFTF
	nStores
)

var storeNames = [nStores]string{cctptypes.StoreKey, authtypes.StoreKey, banktypes.StoreKey, ftftypes.StoreKey}

type StoreKind int

const (
	KindDB   StoreKind = iota // plain dbadapter stores on MemDB (fast path)
	KindIAVL                  // IAVL stores (root hash available; used for validation and C18)
)

// swapDB lets a restore replace the backing MemDB of a mounted dbadapter store.
type swapDB struct{ dbm.DB }

type World struct {
	Kind  StoreKind
	dbs   [nStores]*swapDB
	keys  [nStores]*storetypes.KVStoreKey
	cms   storetypes.CommitMultiStore
	ctx   sdk.Context
	cdc   codec.Codec
	AK    authkeeper.AccountKeeper
	BK    bankkeeper.BaseKeeper
	FTF   *ftfkeeper.Keeper
	K     *cctpkeeper.Keeper
	MS    cctptypes.MsgServer
	Probe *DepsProbe
	Rec   *RecStoreService

	plain        bool // cctp keeper wired to the real dependencies directly
	sharedKeeper bool // keepers belong to another world / a SharedCCTP: never replaced
}

var sharedCdc codec.Codec

func theCodec() codec.Codec {
	if sharedCdc == nil {
		reg := codectypes.NewInterfaceRegistry()
		cryptocodec.RegisterInterfaces(reg)
		authtypes.RegisterInterfaces(reg)
		banktypes.RegisterInterfaces(reg)
		ftftypes.RegisterInterfaces(reg)
		cctptypes.RegisterInterfaces(reg)
		sharedCdc = codec.NewProtoCodec(reg)
	}
	return sharedCdc
}

func govAuthority() string {
	return authtypes.NewModuleAddress("gov").String()
}

// NewWorld builds an empty world (no genesis applied).
func NewWorld(kind StoreKind) *World {
	return newWorldCdc(kind, theCodec())
}

// NewPlainWorld builds a world whose cctp keeper talks to the real dependencies
// directly (no probe, no recording store service): used where several worlds
// run on free-running goroutines.
func NewPlainWorld(kind StoreKind) *World {
	return newWorldOpt(kind, theCodec(), true, nil)
}

// NewSharedWorld builds a world with its own stores but the keepers (and store
// keys) of base -- as a node shares one keeper between its check, deliver and
// query contexts.
func NewSharedWorld(base *World) *World {
	return newWorldOpt(base.Kind, base.cdc, true, base)
}

func newWorldCdc(kind StoreKind, cdc codec.Codec) *World {
	return newWorldOpt(kind, cdc, false, nil)
}

func newWorldOpt(kind StoreKind, cdc codec.Codec, plain bool, share *World) *World {
	ensureConfig()
	w := &World{Kind: kind, cdc: cdc, plain: plain, sharedKeeper: share != nil}
	logger := log.NewNopLogger()
	root := dbm.NewMemDB()
	w.cms = store.NewCommitMultiStore(root, logger, metrics.NewNoOpMetrics())
	for i := 0; i < nStores; i++ {
		if share != nil {
			w.keys[i] = share.keys[i]
		} else {
			w.keys[i] = storetypes.NewKVStoreKey(storeNames[i])
		}
		if kind == KindDB {
			w.dbs[i] = &swapDB{DB: dbm.NewMemDB()}
			w.cms.MountStoreWithDB(w.keys[i], storetypes.StoreTypeDB, w.dbs[i])
		} else {
			w.cms.MountStoreWithDB(w.keys[i], storetypes.StoreTypeIAVL, nil)
		}
	}
	if err := w.cms.LoadLatestVersion(); err != nil {
		panic(err)
	}
	w.ctx = sdk.NewContext(w.cms, cmtproto.Header{Height: 1, ChainID: "verif-1"}, false, logger)
	if share != nil {
		w.AK, w.BK, w.FTF, w.K, w.MS, w.Probe, w.Rec = share.AK, share.BK, share.FTF, share.K, share.MS, share.Probe, share.Rec
		return w
	}

	maccPerms := map[string][]string{
		ftftypes.ModuleName:  {authtypes.Minter, authtypes.Burner},
		cctptypes.ModuleName: nil,
	}
	w.AK = authkeeper.NewAccountKeeper(cdc, runtime.NewKVStoreService(w.keys[stAcc]), authtypes.ProtoBaseAccount,
		maccPerms, addresscodec.NewBech32Codec(Bech32Prefix), Bech32Prefix, govAuthority())
	w.BK = bankkeeper.NewBaseKeeper(cdc, runtime.NewKVStoreService(w.keys[stBank]), w.AK,
		map[string]bool{}, govAuthority(), logger)
	w.FTF = ftfkeeper.NewKeeper(cdc, logger, runtime.NewKVStoreService(w.keys[stFTF]), w.BK)
	w.BK.AppendSendRestriction(w.FTF.SendRestrictionFn)

	w.Probe = &DepsProbe{bank: w.BK, ftf: w.FTF}
	w.Rec = &RecStoreService{inner: runtime.NewKVStoreService(w.keys[stCCTP])}
	if plain {
		w.K = cctpkeeper.NewKeeper(cdc, logger, runtime.NewKVStoreService(w.keys[stCCTP]), w.BK, w.FTF)
		w.MS = cctpkeeper.NewMsgServerImpl(w.K)
		return w
	}
	w.K = cctpkeeper.NewKeeper(cdc, logger, w.Rec, w.Probe, w.Probe)
	w.MS = cctpkeeper.NewMsgServerImpl(w.K)
	return w
}

// ---------------------------------------------------------------------------
// Genesis of the world outside cctp (ledger side)

type LedgerGenesis struct {
	MintingDenom   string            // e.g. "uusdc"
	ModuleIsMinter bool              // cctp module registered as fiattokenfactory minter
	Allowance      string            // minter allowance (decimal)
	FTFPaused      bool              // fiattokenfactory paused
	Blacklisted    [][]byte          // raw addresses
	Balances       map[string]string // bech32 -> amount of MintingDenom
	ModuleStray    string            // stray balance pre-funded to the cctp module account ("" none)
}

func DefaultLedger() LedgerGenesis {
	return LedgerGenesis{
		MintingDenom:   "uusdc",
		ModuleIsMinter: true,
		Allowance:      "1000000000000000000000000000000",
		Balances:       map[string]string{},
	}
}

func mustInt(s string) math.Int {
	i, ok := math.NewIntFromString(s)
	if !ok {
		panic("bad int " + s)
	}
	return i
}

// InitLedger initialises bank + fiattokenfactory state with real keeper calls.
func (w *World) InitLedger(lg LedgerGenesis) {
	ctx := w.ctx
	w.BK.SetDenomMetaData(ctx, banktypes.Metadata{
		Base: lg.MintingDenom, Display: lg.MintingDenom, Name: lg.MintingDenom, Symbol: lg.MintingDenom,
		DenomUnits: []*banktypes.DenomUnit{{Denom: lg.MintingDenom, Exponent: 0}},
	})
	// same writes as fiattokenfactory.InitGenesis (that package itself imports ibc-go,
	// which is not in the offline module cache, so the keeper setters are called directly)
	if _, found := w.BK.GetDenomMetaData(ctx, lg.MintingDenom); !found {
		panic("minting denom not registered")
	}
	w.FTF.SetMintingDenom(ctx, ftftypes.MintingDenom{Denom: lg.MintingDenom})
	w.FTF.SetPaused(ctx, ftftypes.Paused{Paused: false})
	if lg.ModuleIsMinter {
		w.FTF.SetMinters(ctx, ftftypes.Minters{
			Address:   cctptypes.ModuleAddress.String(),
			Allowance: sdk.NewCoin(lg.MintingDenom, mustInt(lg.Allowance)),
		})
	}
	for _, b := range lg.Blacklisted {
		w.FTF.SetBlacklisted(ctx, ftftypes.Blacklisted{AddressBz: b})
	}
	// fund accounts: mint through the bank under the fiattokenfactory module account.
	addrs := make([]string, 0, len(lg.Balances))
	for a := range lg.Balances {
		addrs = append(addrs, a)
	}
	sort.Strings(addrs)
	for _, a := range addrs {
		amt := mustInt(lg.Balances[a])
		if !amt.IsPositive() {
			continue
		}
		coins := sdk.NewCoins(sdk.NewCoin(lg.MintingDenom, amt))
		if err := w.BK.MintCoins(ctx, ftftypes.ModuleName, coins); err != nil {
			panic(err)
		}
		if err := w.BK.SendCoinsFromModuleToAccount(ctx, ftftypes.ModuleName, sdk.MustAccAddressFromBech32(a), coins); err != nil {
			panic(err)
		}
	}
	if lg.ModuleStray != "" {
		coins := sdk.NewCoins(sdk.NewCoin(lg.MintingDenom, mustInt(lg.ModuleStray)))
		if err := w.BK.MintCoins(ctx, ftftypes.ModuleName, coins); err != nil {
			panic(err)
		}
		if err := w.BK.SendCoinsFromModuleToModule(ctx, ftftypes.ModuleName, cctptypes.ModuleName, coins); err != nil {
			panic(err)
		}
	}
	if lg.FTFPaused {
		w.FTF.SetPaused(ctx, ftftypes.Paused{Paused: true})
	}
}

// InitCCTP runs the real cctp.InitGenesis.
func (w *World) InitCCTP(g cctptypes.GenesisState) {
	cctp.InitGenesis(w.ctx, w.K, g)
}

func (w *World) ExportCCTP() *cctptypes.GenesisState {
	cctx, _ := w.ctx.CacheContext()
	return cctp.ExportGenesis(cctx, w.K)
}

// Commit commits the multistore (IAVL worlds: new root hash).
func (w *World) Commit() []byte {
	id := w.cms.Commit()
	return id.Hash
}

// ---------------------------------------------------------------------------
// Dump / restore

type KV struct {
	Store int
	K, V  []byte
}

const stHeader = 255 // pseudo-store: block header (height, unix time) when it differs from the default

// Dump returns the canonical serialisation of all four stores (sorted by store, key),
// followed by the block header if it was advanced.
func (w *World) Dump() []byte {
	var buf bytes.Buffer
	var n [4]byte

	for i := 0; i < nStores; i++ {
		st := w.ctx.KVStore(w.keys[i])
		it := st.Iterator(nil, nil)
		for ; it.Valid(); it.Next() {
			k, v := it.Key(), it.Value()
			buf.WriteByte(byte(i))
			binary.BigEndian.PutUint32(n[:], uint32(len(k)))
			buf.Write(n[:])
			buf.Write(k)
			binary.BigEndian.PutUint32(n[:], uint32(len(v)))
			buf.Write(n[:])
			buf.Write(v)
		}
		it.Close()
	}
	h := w.ctx.BlockHeader()
	if h.Height != 1 || !h.Time.IsZero() {
		v := fmt.Sprintf("%d|%d", h.Height, h.Time.Unix())
		buf.WriteByte(stHeader)
		binary.BigEndian.PutUint32(n[:], 6)
		buf.Write(n[:])
		buf.WriteString("header")
		binary.BigEndian.PutUint32(n[:], uint32(len(v)))
		buf.Write(n[:])
		buf.WriteString(v)
	}
	return buf.Bytes()
}

func ParseDump(d []byte) []KV {
	var out []KV
	for p := 0; p < len(d); {
		s := int(d[p])
		p++
		kl := int(binary.BigEndian.Uint32(d[p:]))
		p += 4
		k := d[p : p+kl]
		p += kl
		vl := int(binary.BigEndian.Uint32(d[p:]))
		p += 4
		v := d[p : p+vl]
		p += vl
		out = append(out, KV{s, k, v})
	}
	return out
}

// freshCCTPKeeper replaces the cctp keeper and msg server by newly constructed
// objects. Load does this because a restored state is a jump to an unrelated
// point of the state graph: whatever an implementation might retain in its keeper
// object belongs to the history just abandoned. Every transition after a Load is
// therefore judged as a function of (chain state, transaction) alone; behaviour
// that depends on memory retained between transactions is decided separately by
// executions that never restore (BFS.SeqDepth legs, preambles, and all of C18).
func (w *World) freshCCTPKeeper() {
	if w.sharedKeeper {
		return
	}
	logger := log.NewNopLogger()
	if w.plain {
		w.K = cctpkeeper.NewKeeper(w.cdc, logger, runtime.NewKVStoreService(w.keys[stCCTP]), w.BK, w.FTF)
	} else {
		w.K = cctpkeeper.NewKeeper(w.cdc, logger, w.Rec, w.Probe, w.Probe)
	}
	w.MS = cctpkeeper.NewMsgServerImpl(w.K)
}

// Load replaces the content of all stores by the dump. On KindDB worlds the
// backing MemDBs are swapped; on IAVL worlds the world must be fresh (empty).
func (w *World) Load(d []byte) {
	w.freshCCTPKeeper()
	if w.Kind == KindDB {
		for i := 0; i < nStores; i++ {
			w.dbs[i].DB = dbm.NewMemDB()
		}
	}
	height, unix := int64(1), int64(0)
	for _, kv := range ParseDump(d) {
		if kv.Store == stHeader {
			fmt.Sscanf(string(kv.V), "%d|%d", &height, &unix)
			continue
		}
		w.ctx.KVStore(w.keys[kv.Store]).Set(kv.K, kv.V)
	}
	w.setHeader(height, unix)
}

func (w *World) setHeader(height, unix int64) {
	h := w.ctx.BlockHeader()
	h.Height = height
	if unix == 0 {
		h.Time = time.Time{}
	} else {
		h.Time = time.Unix(unix, 0).UTC()
	}
	w.ctx = w.ctx.WithBlockHeader(h)
}

// AdvanceBlocks moves the chain forward: later transactions run in a much later block.
func (w *World) AdvanceBlocks(blocks int64, seconds int64) {
	h := w.ctx.BlockHeader()
	unix := int64(0)
	if !h.Time.IsZero() {
		unix = h.Time.Unix()
	}
	if unix == 0 {
		unix = 1700000000
	}
	w.setHeader(h.Height+blocks, unix+seconds)
}

func HashBytes(parts ...[]byte) string {
	h := sha256.New()
	var n [4]byte
	for _, p := range parts {
		binary.BigEndian.PutUint32(n[:], uint32(len(p)))
		h.Write(n[:])
		h.Write(p)
	}
	return hex.EncodeToString(h.Sum(nil)[:16])
}

// DiffDumps lists keys whose value differs between two dumps (store:keyhex old->new).
func storeName(i int) string {
	if i == stHeader {
		return "block"
	}
	return storeNames[i]
}

func DiffDumps(a, b []byte) []string {
	ma := map[string][]byte{}
	for _, kv := range ParseDump(a) {
		ma[fmt.Sprintf("%s:%x", storeName(kv.Store), kv.K)] = kv.V
	}
	var out []string
	for _, kv := range ParseDump(b) {
		id := fmt.Sprintf("%s:%x", storeName(kv.Store), kv.K)
		old, ok := ma[id]
		if !ok {
			out = append(out, fmt.Sprintf("+%s (%q)=%x", id, printable(kv.K), kv.V))
		} else if !bytes.Equal(old, kv.V) {
			out = append(out, fmt.Sprintf("~%s (%q): %x -> %x", id, printable(kv.K), old, kv.V))
		}
		delete(ma, id)
	}
	for id, v := range ma {
		out = append(out, fmt.Sprintf("-%s=%x", id, v))
	}
	sort.Strings(out)
	return out
}

func printable(b []byte) string {
	o := make([]byte, len(b))
	for i, c := range b {
		if c < 32 || c > 126 {
			o[i] = '.'
		} else {
			o[i] = c
		}
	}
	return string(o)
}

// CCTPDump returns only the cctp store part of a dump (for module-level comparisons).
func CCTPKVs(d []byte) []KV {
	var out []KV
	for _, kv := range ParseDump(d) {
		if kv.Store == stCCTP {
			out = append(out, kv)
		}
	}
	return out
}

// Ledger helpers -------------------------------------------------------------

func (w *World) Balance(addr sdk.AccAddress, denom string) math.Int {
	return w.BK.GetBalance(w.ctx, addr, denom).Amount
}

func (w *World) Supply(denom string) math.Int {
	return w.BK.GetSupply(w.ctx, denom).Amount
}

func (w *World) Ctx() sdk.Context { return w.ctx }

// ---------------------------------------------------------------------------
// One cctp keeper shared by several instances whose *dependencies* are their own.
//
// A node shares one cctp keeper object between its deliver, check and query
// contexts. For the free-running race pass the instances must share exactly
// that object (and the package-level state of x/cctp) and nothing else;
// otherwise the detector reports benign races inside the dependencies (the bank
// keeper's cached module address is appended to by fiattokenfactory's
// BlacklistedKey). depRouter dispatches every dependency call to the bank /
// fiattokenfactory keepers of the instance the context belongs to.

type instKeyT struct{}

var instKey = instKeyT{}

type depRouter struct{}

func (depRouter) world(ctx context.Context) *World {
	return sdk.UnwrapSDKContext(ctx).Value(instKey).(*World)
}

func (r depRouter) GetBalance(ctx context.Context, addr sdk.AccAddress, denom string) sdk.Coin {
	return r.world(ctx).BK.GetBalance(ctx, addr, denom)
}

func (r depRouter) SendCoinsFromAccountToModule(ctx context.Context, senderAddr sdk.AccAddress, recipientModule string, amt sdk.Coins) error {
	return r.world(ctx).BK.SendCoinsFromAccountToModule(ctx, senderAddr, recipientModule, amt)
}

func (r depRouter) Burn(ctx sdk.Context, msg *ftftypes.MsgBurn) (*ftftypes.MsgBurnResponse, error) {
	return r.world(ctx).FTF.Burn(ctx, msg)
}

func (r depRouter) Mint(ctx sdk.Context, msg *ftftypes.MsgMint) (*ftftypes.MsgMintResponse, error) {
	return r.world(ctx).FTF.Mint(ctx, msg)
}

func (r depRouter) GetMintingDenom(ctx context.Context) ftftypes.MintingDenom {
	return r.world(ctx).FTF.GetMintingDenom(ctx)
}

// SharedCCTP is one cctp keeper + msg server over a fixed store key.
type SharedCCTP struct {
	key *storetypes.KVStoreKey
	K   *cctpkeeper.Keeper
	MS  cctptypes.MsgServer
}

func NewSharedCCTP() *SharedCCTP {
	ensureConfig()
	key := storetypes.NewKVStoreKey(cctptypes.StoreKey)
	k := cctpkeeper.NewKeeper(theCodec(), log.NewNopLogger(), runtime.NewKVStoreService(key), depRouter{}, depRouter{})
	return &SharedCCTP{key: key, K: k, MS: cctpkeeper.NewMsgServerImpl(k)}
}

// NewInstance builds a world with its own stores and its own auth/bank/
// fiattokenfactory keepers, whose cctp keeper is the shared one.
func (sc *SharedCCTP) NewInstance(kind StoreKind) *World {
	w := newWorldOpt(kind, theCodec(), true, nil) // own everything...
	// ...then remount: a fresh multistore in which the cctp store is mounted under the shared key
	logger := log.NewNopLogger()
	w.cms = store.NewCommitMultiStore(dbm.NewMemDB(), logger, metrics.NewNoOpMetrics())
	w.keys[stCCTP] = sc.key
	for i := 0; i < nStores; i++ {
		if kind == KindDB {
			w.dbs[i] = &swapDB{DB: dbm.NewMemDB()}
			w.cms.MountStoreWithDB(w.keys[i], storetypes.StoreTypeDB, w.dbs[i])
		} else {
			w.cms.MountStoreWithDB(w.keys[i], storetypes.StoreTypeIAVL, nil)
		}
	}
	if err := w.cms.LoadLatestVersion(); err != nil {
		panic(err)
	}
	w.ctx = sdk.NewContext(w.cms, cmtproto.Header{Height: 1, ChainID: "verif-1"}, false, logger).WithValue(instKey, w)
	w.K, w.MS = sc.K, sc.MS
	w.sharedKeeper = true
	return w
}
