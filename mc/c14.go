package main

// C14 -- transfers are all-or-nothing under dependency failures.
// At every state of a bounded BFS over money-moving and pausing transactions,
// each money-moving transaction is executed under every subset of its
// dependency calls failing (before / after taking effect) and under each late
// validation failure placed after the burn.

import (
	"fmt"
	sdk "github.com/cosmos/cosmos-sdk/types"
	"math/big"
	"strings"

	"cosmossdk.io/math"

	cctptypes "github.com/circlefin/noble-cctp/x/cctp/types"

	"cctpmc/refcodec"
)

func init() {
	register(&Check{
		ID:    "C14",
		Level: "fault_enumeration",
		Rule: "history points = all states of a BFS (depth 3 quick / 7 thorough) over {deposit, deposit-with-caller, two minting receives, pause/unpause of both flags, max body size 131/8000}; at each point every money-moving request " +
			"(deposit to a registered / all-zero / wrong-length messenger, with-caller with a good / 31-byte caller, minting receive) runs under every fault plan in {none, fail-before, fail-after, panic}^(number of dependency calls); " +
			"an injected failure or a late validation failure must surface as an error (then all four stores and the event stream are compared with the pre-state), a success must have had no fault, nil results from transfer+burn (or mint) and a MessageSent (or a marked nonce); " +
			"distinct_nontrivial = distinct (flags, request, fault plan, outcome) tuples with at least one injected or late failure",
		Assumptions: []string{"faults are injected at the BankKeeper / FiatTokenfactoryKeeper interfaces handed to NewKeeper", "fail-after means the dependency applied its effect to the branch and then returned an error"},
		Jobs:        c14Jobs,
		Vacuity: func(m *Run) []string {
			if m.Classes["ok"] == 0 || m.Classes["fault-surfaced"] == 0 || m.Classes["late-failure-surfaced"] == 0 {
				return []string{fmt.Sprintf("C14 vacuous: %v", m.Classes)}
			}
			return nil
		},
	})
}

const c14Shards = 10

func c14Jobs(tier string) []Job {
	depth := 3
	if tier == "thorough" {
		depth = 7
	}
	var jobs []Job
	for sh := 0; sh < c14Shards; sh++ {
		sh := sh
		jobs = append(jobs, Job{Name: fmt.Sprintf("fault-bfs-shard%d", sh), Run: func(r *Run) { c14Run(r, depth, sh) }})
	}
	return jobs
}

func c14Run(r *Run, depth, shard int) {
	g := BaseGenesis()
	g.TokenMessengerList = append(g.TokenMessengerList,
		cctptypes.RemoteTokenMessenger{DomainId: 9, Address: make([]byte, 32)},
		cctptypes.RemoteTokenMessenger{DomainId: 10, Address: distinct32(0xB7)[:31]}) // wrong length, only possible through genesis
	scn := Scenario{Name: "c14", Ledger: BaseLedger(), Genesis: g}
	signers := Keys[0:2]
	in1 := InboundBurn(DomEth, 1, big.NewInt(10), pad32(UserB.Addr), nil)
	in2 := InboundBurn(DomEth, 2, big.NewInt(20), pad32(Outsider.Addr), nil)
	menu := []Action{
		MkDeposit(UserA.Str, math.NewInt(5), DomEth, distinct32(0x24), "uusdc"),
		MkDepositWithCaller(UserA.Str, math.NewInt(3), DomAvax, distinct32(0x24), "uusdc", distinct32(0x25)),
		MkReceive(UserB.Str, in1, Attest(in1, signers), "burn(0,1,10)"),
		MkReceive(UserB.Str, in2, Attest(in2, signers), "burn(0,2,20)"),
		Act("pauseSendingAndReceiving by A2", &cctptypes.MsgPauseSendingAndReceivingMessages{From: Pauser.Str}),
		Act("unpauseSendingAndReceiving by A2", &cctptypes.MsgUnpauseSendingAndReceivingMessages{From: Pauser.Str}),
		Act("pauseBurningAndMinting by A2", &cctptypes.MsgPauseBurningAndMinting{From: Pauser.Str}),
		Act("unpauseBurningAndMinting by A2", &cctptypes.MsgUnpauseBurningAndMinting{From: Pauser.Str}),
		Act("updateMaxMessageBodySize(131) by A0", &cctptypes.MsgUpdateMaxMessageBodySize{From: Owner.Str, MessageSize: 131}),
		Act("updateMaxMessageBodySize(8000) by A0", &cctptypes.MsgUpdateMaxMessageBodySize{From: Owner.Str, MessageSize: 8000}),
	}
	fresh := InboundBurn(DomEth, 50, big.NewInt(33), pad32(UserA.Addr), nil)
	zeroAmt := InboundBurn(DomEth, 51, big.NewInt(0), pad32(UserA.Addr), nil)
	type probe struct {
		name  string
		a     Action
		ncall int
		late  string // late validation failure built into the request ("" none)
	}
	probes := []probe{
		{"deposit", MkDeposit(UserA.Str, math.NewInt(7), DomEth, distinct32(0x24), "uusdc"), 2, ""},
		{"depositWithCaller", MkDepositWithCaller(UserB.Str, math.NewInt(2), DomAvax, distinct32(0x24), "uusdc", distinct32(0x25)), 2, ""},
		{"deposit->zero-messenger", MkDeposit(UserA.Str, math.NewInt(7), 9, distinct32(0x24), "uusdc"), 2, "all-zero messenger"},
		{"deposit->wrong-length-messenger", MkDeposit(UserA.Str, math.NewInt(7), 10, distinct32(0x24), "uusdc"), 2, "wrong-length messenger"},
		{"depositWithCaller-31B-caller", MkDepositWithCaller(UserA.Str, math.NewInt(7), DomEth, distinct32(0x24), "uusdc", distinct32(0x25)[:31]), 2, "31-byte caller"},
		{"depositWithCaller-33B-caller", MkDepositWithCaller(UserA.Str, math.NewInt(7), DomEth, distinct32(0x24), "uusdc", append(distinct32(0x25), 9)), 2, "33-byte caller"},
		{"deposit-31B-recipient", MkDeposit(UserA.Str, math.NewInt(7), DomEth, distinct32(0x24)[:31], "uusdc"), 2, "31-byte mint recipient"},
		{"deposit-33B-recipient", MkDeposit(UserA.Str, math.NewInt(7), DomEth, append(distinct32(0x24), 9), "uusdc"), 2, "33-byte mint recipient"},
		{"depositWithCaller-64B-recipient", MkDepositWithCaller(UserA.Str, math.NewInt(7), DomEth, append(distinct32(0x24), distinct32(0x26)...), "uusdc", distinct32(0x25)), 2, "64-byte mint recipient"},
		{"receive-mint", MkReceive(UserB.Str, fresh, Attest(fresh, signers), "burn(0,50,33)"), 1, ""},
		{"receive-mint-zero-amount", MkReceive(UserB.Str, zeroAmt, Attest(zeroAmt, signers), "burn(0,51,0)"), 1, "the token factory refuses to mint a zero amount"},
	}
	plans := func(n int) [][]int {
		out := [][]int{{}}
		for i := 0; i < n; i++ {
			var nx [][]int
			for _, p := range out {
				for f := 0; f < 4; f++ {
					nx = append(nx, append(append([]int{}, p...), f))
				}
			}
			out = nx
		}
		return out
	}

	bfs := &BFS{
		SeqDepth: 2,
		Scn:      scn, MaxDepth: depth, ValidatePaths: shard == 0, RootShard: shard, RootShards: c14Shards,
		Actions: func(n *Node, w *World) []Action { return menu },
		State: func(r *Run, n *Node, w *World) {
			view := ViewOf(w)
			flags := fmt.Sprintf("burnP=%v sendP=%v maxBody=%d", view.BurnPaused, view.SendPaused, view.MaxBody)
			for _, pb := range probes {
				for _, plan := range plans(pb.ncall) {
					w.Load(n.Dump)
					p := Predict(w, view, pb.a)
					a := pb.a
					injected := false
					for _, f := range plan {
						if f != FaultNone {
							injected = true
						}
					}
					if injected {
						a = a.WithFault(plan...)
					}
					// the ledger as the depositor / recipient sees it, before and after
					var payer sdk.AccAddress
					var amount math.Int
					if msg, err := a.Decode(); err == nil {
						switch x := msg.(type) {
						case *cctptypes.MsgDepositForBurn:
							payer, _ = sdk.AccAddressFromBech32(x.From)
							amount = x.Amount
						case *cctptypes.MsgDepositForBurnWithCaller:
							payer, _ = sdk.AccAddressFromBech32(x.From)
							amount = x.Amount
						}
					}
					var balBefore, supBefore math.Int
					if payer != nil {
						balBefore, supBefore = w.Balance(payer, "uusdc"), w.Supply("uusdc")
					}
					o := w.Apply(a)
					r.Transitions++
					r.Evaluations++
					post := w.Dump()
					path := append(append([]Action{}, n.Path...), a)
					rp := func(exp, obs string) Replay {
						x := scn.Replay("actions", path)
						x.Expected, x.Observed = exp, obs
						return x
					}
					// which injected faults were actually reached?
					reached := false
					for _, d := range o.Deps {
						if d.Fault != "" {
							reached = true
						}
					}
					lateExpected := p.Exp == MustFail && !injected && len(o.Deps) > 0
					if reached || lateExpected {
						r.Distinct(fmt.Sprintf("%s|%s|%v|%s", flags, pb.name, plan, o.Class()))
					}
					switch {
					case o.Panicked && (strings.Contains(o.PanicVal, "injected dependency panic") || panicInjected(o.Deps)):
						// a panicking dependency aborts the transaction (baseapp recovers and rolls back) -- also when the
						// handler's own deferred code panics again while the injected panic unwinds: what C14 states
						// is that nothing of the transaction survives, not which panic value reaches baseapp
						r.Class("fault-surfaced")
						if HashBytes(post) != HashBytes(n.Dump) {
							r.Violate("C14 failed transaction left effects behind: "+pb.name, fmt.Sprintf("%s: %v", a.Desc, DiffDumps(n.Dump, post)), rp("", ""))
						}
						c14PublicUnchanged(r, w, view, pb.name, a, rp)
					case o.Panicked:
						r.Class("panic")
						r.Violate("C14 panic under fault injection: "+pb.name, fmt.Sprintf("%s plan=%v: %s", a.Desc, plan, o.PanicVal), rp("", ""))
					case o.OK && reached:
						r.Class("ok")
						r.Violate("C14 transaction succeeded although a dependency call failed: "+pb.name,
							fmt.Sprintf("[%s] %s: dependency calls %s", flags, a.Desc, depsStr(o.Deps)), rp("error (rolled back)", "ok"))
					case o.OK && p.Exp == MustFail && !c14Late(p):
						// refused for a reason that is checked before any fund movement: not this property's subject
						r.Class("ok")
					case o.OK && p.Exp == MustFail:
						r.Class("ok")
						r.Violate("C14 transaction succeeded although a validation after the fund movement fails: "+pb.name,
							fmt.Sprintf("[%s] %s: expected failure (%s); dependency calls %s", flags, a.Desc, p.Why, depsStr(o.Deps)), rp("error: "+p.Why, "ok"))
					case o.OK:
						r.Class("ok")
						// success: both (or the one) dependency calls returned nil, and the message was emitted / the nonce marked
						bad := len(o.Deps) != pb.ncall
						for _, d := range o.Deps {
							if d.Err != "" {
								bad = true
							}
						}
						if bad {
							r.Violate("C14 success without all dependency calls having succeeded: "+pb.name, fmt.Sprintf("%s: %s", a.Desc, depsStr(o.Deps)), rp("", depsStr(o.Deps)))
						}
						if pb.ncall == 2 && payer != nil && !amount.IsNil() {
							// "a deposit never succeeds without the debit and the burn": judged on the committed ledger
							balAfter, supAfter := w.Balance(payer, "uusdc"), w.Supply("uusdc")
							if !balBefore.Sub(balAfter).Equal(amount) || !supBefore.Sub(supAfter).Equal(amount) {
								r.Violate("C14 deposit succeeded without the debit and the burn being committed: "+pb.name,
									fmt.Sprintf("[%s] %s: depositor %s -> %s, supply %s -> %s, amount %s", flags, a.Desc, balBefore, balAfter, supBefore, supAfter, amount), rp("debited and burnt "+amount.String(), "ok"))
							}
						}
						if pb.ncall == 2 {
							sent := MessageSentOf(o.Events)
							if len(sent) != 1 {
								r.Violate("C14 deposit succeeded without emitting its message", fmt.Sprintf("[%s] %s: %d MessageSent", flags, a.Desc, len(sent)), rp("1 MessageSent", fmt.Sprint(len(sent))))
							} else if dm, err := refcodec.DecodeMessage(sent[0]); err != nil || len(dm.Body) != 132 {
								r.Violate("C14 deposit emitted a malformed message", a.Desc, rp("", fmt.Sprintf("%x", sent[0])))
							}
						} else if !ViewOf(w).Used[nonceKey(DomEth, 50)] {
							r.Violate("C14 receive succeeded without marking its nonce", a.Desc, rp("", ""))
						}
					default: // error
						if reached {
							r.Class("fault-surfaced")
						} else if len(o.Deps) > 0 {
							r.Class("late-failure-surfaced")
						} else {
							r.Class("error")
						}
						if HashBytes(post) != HashBytes(n.Dump) || len(o.Events) != 0 {
							r.Violate("C14 failed transaction left effects behind: "+pb.name, fmt.Sprintf("%s: %v events=%d", a.Desc, DiffDumps(n.Dump, post), len(o.Events)), rp("", ""))
						}
						c14PublicUnchanged(r, w, view, pb.name, a, rp)
					}
					if n.Depth == 0 && injected && len(r.Samples) < 5 {
						r.Sample("faulted", map[string]any{"request": pb.name, "plan(0 none,1 before,2 after)": plan, "deps": depsStr(o.Deps), "observed": o.Class(), "err": o.Err})
					}
				}
			}
		},
	}
	bfs.Explore(r)
}

// c14PublicUnchanged: after a rolled-back transaction the state as seen through
// export, queries (incl. the used-nonce query for the probed nonce) must equal
// the pre-state -- not only the raw stores.
func c14PublicUnchanged(r *Run, w *World, pre View, name string, a Action, rp func(string, string) Replay) {
	post := ViewOf(w)
	if !viewEqual(pre, post) {
		r.Violate("C14 public state differs after a rolled-back transaction: "+name, fmt.Sprintf("%s:\n before %s\n after  %s", a.Desc, pre, post), rp(pre.String(), post.String()))
		return
	}
	cctx, _ := w.ctx.CacheContext()
	_, err := w.K.UsedNonce(cctx, &cctptypes.QueryGetUsedNonceRequest{SourceDomain: DomEth, Nonce: 50})
	if (err == nil) != pre.Used[nonceKey(DomEth, 50)] {
		r.Violate("C14 used-nonce query differs after a rolled-back transaction: "+name, fmt.Sprintf("%s: query says used=%v, before the transaction %v", a.Desc, err == nil, pre.Used[nonceKey(DomEth, 50)]), rp("", ""))
	}
	q, err := w.K.NextAvailableNonce(cctx, &cctptypes.QueryGetNextAvailableNonceRequest{})
	if err != nil || q.Nonce.Nonce != pre.NextNonce {
		r.Violate("C14 next-nonce query differs after a rolled-back transaction: "+name, a.Desc, rp("", ""))
	}
}

// c14Late: every violated precondition is one that is only checked after funds were
// moved (deposit: after transfer and burn) or after the nonce was marked (receive).
func c14Late(p Pred) bool {
	late := map[string]bool{
		// deposit: validations of the inner send
		"sending and receiving not paused": true, "132-byte body fits the maximum body size": true,
		"destination caller non-zero 32 bytes": true, "mint recipient non-zero 32 bytes": true,
		"non-zero token messenger registered for the destination": true,
		// receive: everything after the nonce is marked
		"minting not paused": true, "body is a 132-byte burn message": true, "burn message version 0": true,
		"sender is the registered token messenger": true, "local token linked to (source domain, burn token)": true, "mint succeeds": true,
	}
	n := 0
	for _, c := range p.Conds {
		if !c.OK {
			if !late[c.Name] {
				return false
			}
			n++
		}
	}
	return n > 0
}

// panicInjected: did one of the recorded dependency calls panic by injection?
func panicInjected(deps []DepCall) bool {
	for _, d := range deps {
		if d.Err == "panic" {
			return true
		}
	}
	return false
}
