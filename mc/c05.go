package main

// C05 -- every outbound burn message is backed by an equal burn.
// BFS over deposits (both variants, several depositors/amounts incl. failing
// ones), user sends (incl. bodies imitating burn messages), replacements of the
// messages emitted so far, and pausing; conservation invariant in every state.

import (
	"bytes"
	"fmt"
	"math/big"
	"reflect"
	"strings"

	"cosmossdk.io/math"
	sdk "github.com/cosmos/cosmos-sdk/types"

	cctptypes "github.com/circlefin/noble-cctp/x/cctp/types"

	"cctpmc/refcodec"
)

func init() {
	register(&Check{
		ID:    "C05",
		Level: "model_checking",
		Rule: "BFS (depth 4 quick / 7 thorough, sharded by first action) over deposits by two depositors with finite balances (amounts 1, limit=2^64+1, limit+1, balance, balance+1; both variants), user sends incl. a 132-byte body imitating a burn message, " +
			"deposits during which the transfer or the burn is refused / fails after taking effect / panics (6 fault plans + 2 on the with-caller variant), " +
			"replacements (by the right and the wrong submitter) of the first user message / imitation / deposit emitted, pause/unpause; module account pre-funded with a stray balance; " +
			"in every state: supply destroyed == sum of burn-message amounts over distinct module-sent nonces, module balance unchanged; per step: only the depositor is debited, by the amount; sender rule for every MessageSent; " +
			"distinct_nontrivial = distinct (outstanding burn set, transaction, outcome) triples",
		Assumptions: []string{"the From field is the authenticated signer, so nobody submits with From = module address"},
		Jobs:        c05Jobs,
		Vacuity: func(m *Run) []string {
			if m.Classes["ok"] == 0 || m.Classes["error"] == 0 || m.Classes["deposit-checked"] == 0 || m.Classes["fault-panic"]+m.Classes["faulted-error"] == 0 {
				return []string{fmt.Sprintf("C05 vacuous: %v", m.Classes)}
			}
			return nil
		},
	})
}

const c05Shards = 16

func c05Jobs(tier string) []Job {
	depth := 4
	if tier == "thorough" {
		depth = 7
	}
	var jobs []Job
	for sh := 0; sh < c05Shards; sh++ {
		sh := sh
		jobs = append(jobs, Job{Name: fmt.Sprintf("burn-bfs-shard%d", sh), Run: func(r *Run) { c05BFS(r, depth, sh) }})
	}
	return jobs
}

type c05Model struct {
	Out map[string]string // outbound nonce -> burn amount, for module-sent messages
}

func c05BFS(r *Run, depth, shard int) {
	limit := new(big.Int).Add(bigPow2(64), big.NewInt(1))
	g := BaseGenesis()
	g.PerMessageBurnLimitList = []cctptypes.PerMessageBurnLimit{{Denom: "uusdc", Amount: intFromBig(limit)}}
	lg := DefaultLedger()
	lg.Balances[UserA.Str] = bigPow2(66).String()
	lg.Balances[UserB.Str] = "50"
	lg.ModuleStray = "77"
	scn := Scenario{Name: "c05", Ledger: lg, Genesis: g}
	signers := Keys[0:2]
	imitation := RefBurn(0, refKeccak([]byte("uusdc")), distinct32(0x24), big.NewInt(999999), pad32(UserB.Addr))
	accounts := []Account{UserA, UserB, Outsider, ModuleAcct}
	menu := []Action{
		MkDeposit(UserA.Str, math.NewInt(1), DomEth, distinct32(0x24), "uusdc"),
		MkDeposit(UserA.Str, intFromBig(limit), DomEth, distinct32(0x24), "uusdc"),
		MkDeposit(UserA.Str, intFromBig(limit).AddRaw(1), DomEth, distinct32(0x24), "uusdc"), // over the limit
		MkDepositWithCaller(UserA.Str, math.NewInt(2), DomAvax, distinct32(0x24), "uusdc", distinct32(0x25)),
		MkDeposit(UserB.Str, math.NewInt(50), DomAvax, pad32(UserA.Addr), "uusdc"), // whole balance
		MkDeposit(UserB.Str, math.NewInt(51), DomAvax, pad32(UserA.Addr), "uusdc"), // cannot pay
		MkDeposit(UserB.Str, math.NewInt(20), DomEth, distinct32(0x24), "uusdc"),
		MkDeposit(Outsider.Str, math.NewInt(1), DomEth, distinct32(0x24), "uusdc"), // no funds
		MkSend(UserA.Str, DomEth, distinct32(0x21), []byte("a")),
		MkSend(UserA.Str, DomEth, RemoteMessenger0, imitation), // a user message shaped like a burn message naming B
		MkSendWithCaller(UserB.Str, DomEth, distinct32(0x21), []byte("b"), distinct32(0x22)),
		Act("pauseBurningAndMinting by A2", &cctptypes.MsgPauseBurningAndMinting{From: Pauser.Str}),
		Act("unpauseBurningAndMinting by A2", &cctptypes.MsgUnpauseBurningAndMinting{From: Pauser.Str}),
	}
	// "... and failures": deposits during which one dependency call fails -- refused before taking effect, failing after
	// it took effect, or panicking -- at the transfer or at the burn (round 6, C05r6-1: a handler that swallows a
	// dependency panic emits a burn message that nothing backs)
	for _, plan := range [][]int{{FaultBefore}, {FaultAfter}, {FaultPanic}, {FaultNone, FaultBefore}, {FaultNone, FaultAfter}, {FaultNone, FaultPanic}} {
		menu = append(menu, MkDeposit(UserB.Str, math.NewInt(20), DomEth, distinct32(0x24), "uusdc").WithFault(plan...))
	}
	menu = append(menu,
		MkDepositWithCaller(UserA.Str, math.NewInt(2), DomAvax, distinct32(0x24), "uusdc", distinct32(0x25)).WithFault(FaultPanic),
		MkDepositWithCaller(UserA.Str, math.NewInt(2), DomAvax, distinct32(0x24), "uusdc", distinct32(0x25)).WithFault(FaultNone, FaultPanic))
	var genesisSupply math.Int
	var stray math.Int

	bfs := &BFS{
		SeqDepth: 3,
		Scn:      scn, MaxDepth: depth, ValidatePaths: shard == 0, RootShard: shard, RootShards: c05Shards,
		Init: func(r *Run, w *World, root *Node) {
			root.Model, root.MKey = c05Model{Out: map[string]string{}}, "{}"
			genesisSupply = w.Supply("uusdc")
			stray = w.Balance(cctptypes.ModuleAddress, "uusdc")
		},
		Actions: func(n *Node, w *World) []Action {
			as := append([]Action{}, menu...)
			if u := envGet(n.Env, "u"); u != nil {
				att := Attest(u, signers)
				as = append(as, MkReplaceMessage(UserA.Str, u, att, []byte("r"), distinct32(0x23), "first user message"),
					MkReplaceDeposit(UserA.Str, u, att, distinct32(0x26), distinct32(0x27), "first user message (not a deposit)"))
			}
			if im := envGet(n.Env, "i"); im != nil {
				att := Attest(im, signers)
				as = append(as, MkReplaceDeposit(UserB.Str, im, att, distinct32(0x26), distinct32(0x27), "user-sent imitation naming B"),
					MkReplaceMessage(UserA.Str, im, att, imitation, distinct32(0x23), "user-sent imitation (own message)"))
			}
			if d := envGet(n.Env, "d"); d != nil {
				att := Attest(d, signers)
				dm, _ := refcodec.DecodeMessage(d)
				db, _ := refcodec.DecodeBurn(dm.Body)
				depositor := bech32Of(db.MessageSender[12:])
				other := UserA.Str
				if depositor == UserA.Str {
					other = UserB.Str
				}
				as = append(as,
					MkReplaceDeposit(depositor, d, att, distinct32(0x26), distinct32(0x27), "first deposit"),
					// an over-long new recipient whose excess bytes would land on the amount field (2^200) if it were copied unchecked
					MkReplaceDeposit(depositor, d, att, distinct32(0x26), append(distinct32(0x27), pad32(bigPow2(200).Bytes())...), "first deposit, 64-byte new recipient"),
					MkReplaceDeposit(other, d, att, distinct32(0x26), distinct32(0x27), "first deposit (not the depositor)"),
					MkReplaceMessage(depositor, d, att, []byte("hijack"), distinct32(0x23), "first deposit via replace-message"))
			}
			return as
		},
		Step: func(r *Run, pre *Node, a Action, o Outcome, w *World, post *Node) bool {
			m := pre.Model.(c05Model)
			kind := handlerName(a.Type)
			rp := func(exp, obs string) Replay {
				x := scn.Replay("actions", post.Path)
				x.Expected, x.Observed = exp, obs
				return x
			}
			faulted := false
			for _, f := range a.Fault {
				faulted = faulted || f != FaultNone
			}
			if o.Panicked && (panicInjected(o.Deps) || strings.Contains(o.PanicVal, "injected dependency panic")) {
				// the injected dependency panic reached baseapp, which discards the transaction: nothing may remain
				r.Class("fault-panic")
				if HashBytes(w.Dump()) != HashBytes(pre.Dump) {
					r.Violate("C05 transaction aborted by a dependency panic left effects behind", fmt.Sprintf("%s: %v", a.Desc, DiffDumps(pre.Dump, w.Dump())), rp("", ""))
				}
				return false
			}
			if o.Panicked {
				r.Violate("C05 panic "+kind, a.Desc+": "+o.PanicVal, rp("", ""))
				return false
			}
			if faulted {
				r.Class("faulted-" + o.Class())
			}
			next := c05Model{Out: map[string]string{}}
			for k, v := range m.Out {
				next.Out[k] = v
			}
			r.Distinct(fmt.Sprintf("%s|%s|%s", mapStr(m.Out), a.Desc, o.Class()))
			// balances before/after
			wpre := preWorld(scn, pre)
			type bal struct{ before, after math.Int }
			bals := map[string]bal{}
			for _, acc := range accounts {
				bals[acc.Name] = bal{wpre.Balance(acc.Addr, "uusdc"), w.Balance(acc.Addr, "uusdc")}
			}
			supBefore, supAfter := wpre.Supply("uusdc"), w.Supply("uusdc")
			msg := mustDecode(a)
			from := submitterOf(msg)
			sent := MessageSentOf(o.Events)
			isDeposit := kind == "DepositForBurn" || kind == "DepositForBurnWithCaller"
			if isDeposit && o.OK {
				r.Class("deposit-checked")
				var amt math.Int
				switch x := msg.(type) {
				case *cctptypes.MsgDepositForBurn:
					amt = x.Amount
				case *cctptypes.MsgDepositForBurnWithCaller:
					amt = x.Amount
				}
				want := []DepCall{{Kind: "transfer", From: from, To: cctptypes.ModuleName, Denom: "uusdc", Amount: amt.String()}, {Kind: "burn", From: ModuleAcct.Str, Denom: "uusdc", Amount: amt.String()}}
				if !depsEqual(o.Deps, want) || o.Deps[0].Err != "" || o.Deps[1].Err != "" {
					r.Violate("C05 deposit did not transfer and burn exactly the stated amount", fmt.Sprintf("%s: %s, expected %s", a.Desc, depsStr(o.Deps), depsStr(want)), rp(depsStr(want), depsStr(o.Deps)))
				}
				for _, acc := range accounts {
					b := bals[acc.Name]
					wantAfter := b.before
					if acc.Str == from {
						wantAfter = b.before.Sub(amt)
					}
					if !b.after.Equal(wantAfter) {
						r.Violate("C05 deposit debited the wrong account or amount", fmt.Sprintf("%s: balance of %s %s -> %s, expected %s", a.Desc, acc.Name, b.before, b.after, wantAfter), rp(wantAfter.String(), b.after.String()))
					}
				}
				if !supBefore.Sub(supAfter).Equal(amt) {
					r.Violate("C05 supply destroyed differs from the deposited amount", fmt.Sprintf("%s: supply %s -> %s", a.Desc, supBefore, supAfter), rp(amt.String(), supBefore.Sub(supAfter).String()))
				}
				if len(sent) != 1 {
					r.Violate("C05 successful deposit did not emit exactly one message", a.Desc, rp("1", fmt.Sprint(len(sent))))
				}
			} else {
				for _, acc := range accounts {
					b := bals[acc.Name]
					if !b.after.Equal(b.before) {
						r.Violate("C05 balance moved by a transaction that is not a successful deposit: "+kind, fmt.Sprintf("%s (%s): %s %s -> %s", a.Desc, o.Class(), acc.Name, b.before, b.after), rp("unchanged", b.after.String()))
					}
				}
				if !supAfter.Equal(supBefore) {
					r.Violate("C05 supply moved by a transaction that is not a successful deposit: "+kind, fmt.Sprintf("%s: %s -> %s", a.Desc, supBefore, supAfter), rp("unchanged", supAfter.String()))
				}
			}
			// sender rule for every emitted message
			for _, raw := range sent {
				dm, err := refcodec.DecodeMessage(raw)
				if err != nil {
					r.Violate("C05 emitted message is malformed", a.Desc, rp("", fmt.Sprintf("%x", raw)))
					continue
				}
				moduleSpeaks := bytes.Equal(dm.Sender, PaddedModule)
				switch kind {
				case "DepositForBurn", "DepositForBurnWithCaller", "ReplaceDepositForBurn":
					if !moduleSpeaks {
						r.Violate("C05 deposit message not sent in the module's name", a.Desc+": "+refMsgStr(dm), rp("sender=module", refMsgStr(dm)))
						continue
					}
					db, berr := refcodec.DecodeBurn(dm.Body)
					if berr != nil {
						r.Violate("C05 module-sent message does not carry a burn message", a.Desc, rp("", refMsgStr(dm)))
						continue
					}
					k := fmt.Sprint(dm.Nonce)
					if isDeposit {
						var amt math.Int
						switch x := msg.(type) {
						case *cctptypes.MsgDepositForBurn:
							amt = x.Amount
						case *cctptypes.MsgDepositForBurnWithCaller:
							amt = x.Amount
						}
						if db.Amount.Cmp(amt.BigInt()) != 0 {
							r.Violate("C05 burn message states a different amount than was burnt", fmt.Sprintf("%s: message says %s", a.Desc, db.Amount), rp(amt.String(), db.Amount.String()))
						}
						if !bytes.Equal(db.MessageSender, pad32(sdk.MustAccAddressFromBech32(from))) {
							r.Violate("C05 burn message names a different depositor", fmt.Sprintf("%s: %x", a.Desc, db.MessageSender), rp(from, fmt.Sprintf("%x", db.MessageSender)))
						}
						if _, dup := m.Out[k]; dup {
							r.Violate("C05 outbound nonce reused by a deposit", a.Desc, rp("fresh nonce", k))
						}
						next.Out[k] = db.Amount.String()
					} else { // replacement
						old, have := m.Out[k]
						if !have {
							r.Violate("C05 module-sent replacement for a nonce no deposit produced", fmt.Sprintf("%s: nonce %s", a.Desc, k), rp("", k))
						} else if old != db.Amount.String() {
							r.Violate("C05 replacement changes the burn amount", fmt.Sprintf("%s: %s -> %s", a.Desc, old, db.Amount), rp(old, db.Amount.String()))
						}
						if !bytes.Equal(db.MessageSender, pad32(sdk.MustAccAddressFromBech32(from))) {
							r.Violate("C05 deposit replaced by someone other than the depositor", fmt.Sprintf("%s: depositor %x", a.Desc, db.MessageSender), rp(from, fmt.Sprintf("%x", db.MessageSender)))
						}
					}
				default:
					if moduleSpeaks || !bytes.Equal(dm.Sender, pad32(sdk.MustAccAddressFromBech32(from))) {
						r.Violate("C05 user transaction emitted a message whose sender is not the submitter: "+kind, fmt.Sprintf("%s: %s", a.Desc, refMsgStr(dm)), rp("sender="+from, refMsgStr(dm)))
					}
				}
			}
			// env
			if o.OK && len(sent) == 1 {
				switch {
				case kind == "SendMessage" && a.Desc == menu[8].Desc:
					post.Env = envPut(post.Env, "u", sent[0])
				case kind == "SendMessage" && a.Desc == menu[9].Desc:
					post.Env = envPut(post.Env, "i", sent[0])
				case kind == "DepositForBurn":
					post.Env = envPut(post.Env, "d", sent[0])
				}
			}
			post.Model, post.MKey = next, mapStr(next.Out)
			// conservation
			sum := new(big.Int)
			for _, v := range next.Out {
				x, _ := new(big.Int).SetString(v, 10)
				sum.Add(sum, x)
			}
			destroyed := genesisSupply.Sub(supAfter)
			if destroyed.BigInt().Cmp(sum) != 0 {
				r.Violate("C05 supply destroyed differs from the sum of outbound burn-message amounts",
					fmt.Sprintf("after %v: destroyed %s, burn messages %s %v", descs(post.Path), destroyed, sum, mapStr(next.Out)), rp(sum.String(), destroyed.String()))
			}
			if mb := w.Balance(cctptypes.ModuleAddress, "uusdc"); !mb.Equal(stray) {
				r.Violate("C05 something is left in (or taken from) the module account", fmt.Sprintf("after %v: module balance %s, genesis %s", descs(post.Path), mb, stray), rp(stray.String(), mb.String()))
			}
			if pre.Depth == 0 && len(r.Samples) < 4 {
				r.Sample("step", map[string]any{"tx": a.Desc, "observed": o.Class(), "deps": depsStr(o.Deps), "outstanding": mapStr(next.Out)})
			}
			return true
		},
	}
	bfs.Explore(r)
}

// preWorld loads the source state of a transition into a scratch world.
var scratchWorlds = map[string]*World{}

func preWorld(scn Scenario, pre *Node) *World {
	w, ok := scratchWorlds[scn.Name]
	if !ok {
		w = scn.Build(KindDB)
		scratchWorlds[scn.Name] = w
	}
	w.Load(pre.Dump)
	return w
}

func submitterOf(msg any) string {
	v := reflect.ValueOf(msg)
	if v.Kind() == reflect.Ptr {
		v = v.Elem()
	}
	if f := v.FieldByName("From"); f.IsValid() && f.Kind() == reflect.String {
		return f.String()
	}
	return ""
}
