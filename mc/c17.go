package main

// C17 -- genesis import/export preserves state; validation rejects ambiguity.

import (
	"bytes"
	"encoding/hex"
	"fmt"
	"math/big"
	"sort"
	"strings"

	"cosmossdk.io/math"

	cctp "github.com/circlefin/noble-cctp/x/cctp"
	cctptypes "github.com/circlefin/noble-cctp/x/cctp/types"
)

func init() {
	register(&Check{
		ID:    "C17",
		Level: "model_checking",
		Rule: "product of genesis states: each of the five keyed lists as every sequence of length <=3 over 4 entries {(k1,v1),(k1,v2),(k2,v1),(k3,v1)} (85 per list), one list at a time (quick) and every pair of lists (thorough), " +
			"x optional scalars present/absent (2^3) x both pause flags (2^2) x roles empty/valid; duplicate key => Validate must reject; accepted by Validate and InitGenesis => export(init(g)) == g as multisets with documented defaults; " +
			"plus BFS (depth 3 quick / 5 thorough, sharded) over one or two parameterisations of all 25 transaction types: in every reachable state init(export(s)) into an empty store must reproduce the raw module store key for key; " +
			"distinct_nontrivial = distinct genesis shapes with a duplicate or accepted round trip + distinct reachable store shapes",
		Assumptions: []string{"nil and empty byte strings, absent and zero amounts are identified when comparing", "a panic in InitGenesis counts as 'not accepted by initialisation'"},
		Jobs:        c17Jobs,
		Vacuity: func(m *Run) []string {
			if m.Classes["genesis-roundtrip-ok"] == 0 || m.Classes["genesis-duplicate-rejected"] == 0 || m.Classes["reachable-roundtrip"] == 0 {
				return []string{fmt.Sprintf("C17 vacuous: %v", m.Classes)}
			}
			return nil
		},
	})
	replayers["genesis"] = c17Replay
}

const c17Shards = 14

func c17Jobs(tier string) []Job {
	var jobs []Job
	lists := []string{"attesters", "limits", "pairs", "used", "messengers"}
	for i, l := range lists {
		l := l
		jobs = append(jobs, Job{Name: "genesis-product " + l, Run: func(r *Run) { c17Product(r, l, "") }})
		if tier == "thorough" {
			for _, l2 := range lists[i+1:] {
				l2 := l2
				jobs = append(jobs, Job{Name: "genesis-product " + l + "+" + l2, Run: func(r *Run) { c17Product(r, l, l2) }})
			}
		}
	}
	for _, n := range []int{99, 100, 101, 130, 257} {
		n := n
		jobs = append(jobs, Job{Name: fmt.Sprintf("genesis-large-lists-%d", n), Run: func(r *Run) { c17Large(r, n) }})
	}
	depth := 3
	if tier == "thorough" {
		depth = 5
	}
	for sh := 0; sh < c17Shards; sh++ {
		sh := sh
		jobs = append(jobs, Job{Name: fmt.Sprintf("reachable-shard%d", sh), Run: func(r *Run) { c17Reachable(r, depth, sh) }})
	}
	return jobs
}

// ---------------------------------------------------------------------------
// genesis product

type c17Entry struct {
	key string
	set func(g *cctptypes.GenesisState)
}

func c17Entries(list string) []c17Entry {
	tA := distinct32(0xC0)
	tC := append([]byte{}, tA...)
	tC[31] ^= 0xFF
	X, Y := distinct32(0xA0), distinct32(0xA1)
	switch list {
	case "attesters":
		mk := func(s string) c17Entry {
			return c17Entry{s, func(g *cctptypes.GenesisState) {
				g.AttesterList = append(g.AttesterList, cctptypes.Attester{Attester: s})
			}}
		}
		return []c17Entry{mk(Keys[0].Hex), mk(Keys[0].Hex), mk(Keys[1].Hex), mk(Keys[0].Spell(1)), mk(Keys[1].Spell(2))} // round 6: an upper-case spelling (a different key string) must round-trip verbatim
	case "limits":
		mk := func(d string, a int64) c17Entry {
			return c17Entry{d, func(g *cctptypes.GenesisState) {
				g.PerMessageBurnLimitList = append(g.PerMessageBurnLimitList, cctptypes.PerMessageBurnLimit{Denom: d, Amount: math.NewInt(a)})
			}}
		}
		return []c17Entry{mk("uusdc", 5), mk("uusdc", 7), mk("uatom", 0), mk("UUSDC", 9)} // a zero limit, and a denom differing from another only in case (a different key): both must round-trip
	case "pairs":
		mk := func(d uint32, t []byte, l string) c17Entry {
			return c17Entry{pairKey(d, t), func(g *cctptypes.GenesisState) {
				g.TokenPairList = append(g.TokenPairList, cctptypes.TokenPair{RemoteDomain: d, RemoteToken: t, LocalToken: l})
			}}
		}
		t20 := bytes.Repeat([]byte{0xA5}, 20)                                                                                                                                  // a 20-byte remote token and the same bytes left-padded to 32: two different keys
		return []c17Entry{mk(0, tA, "uusdc"), mk(0, tA, "uatom"), mk(0, tC, "uusdc"), mk(1, tA, "uusdc"), mk(0, t20, "uusdc"), mk(0, pad32(t20), "uatom"), mk(1, tC, "uUSDC")} // round 6: a mixed-case local token is stored and exported verbatim
	case "used":
		mk := func(d uint32, n uint64) c17Entry {
			return c17Entry{nonceKey(d, n), func(g *cctptypes.GenesisState) {
				g.UsedNoncesList = append(g.UsedNoncesList, cctptypes.Nonce{SourceDomain: d, Nonce: n})
			}}
		}
		return []c17Entry{mk(0, 1), mk(0, 1), mk(3, 0), mk(1<<32-1, 1<<64-1)} // a zero nonce after a non-zero one; the highest domain
	case "messengers":
		mk := func(d uint32, a []byte) c17Entry {
			return c17Entry{fmt.Sprint(d), func(g *cctptypes.GenesisState) {
				g.TokenMessengerList = append(g.TokenMessengerList, cctptypes.RemoteTokenMessenger{DomainId: d, Address: a})
			}}
		}
		return []c17Entry{mk(0, X), mk(0, Y), mk(1, X), mk(256, nil)} // an entry whose address field is empty (omitted on the wire)
	}
	return nil
}

func c17Seqs(n int) [][]int {
	out := [][]int{{}}
	cur := [][]int{{}}
	for l := 0; l < 3; l++ {
		var nx [][]int
		for _, s := range cur {
			for i := 0; i < n; i++ {
				nx = append(nx, append(append([]int{}, s...), i))
			}
		}
		out = append(out, nx...)
		cur = nx
	}
	return out
}

// canonical multiset rendering of a genesis state with defaults substituted
func c17Canon(g *cctptypes.GenesisState) string {
	v := ViewOfGenesis(g)
	if g.MaxMessageBodySize == nil {
		v.MaxBody = 8000
	}
	if g.SignatureThreshold == nil {
		v.Threshold, v.HasThreshold = 1, true
	}
	// lists as multisets (duplicates preserved, unlike the maps of View)
	var att, lim, prs, usd, msg []string
	for _, a := range g.AttesterList {
		att = append(att, a.Attester)
	}
	for _, l := range g.PerMessageBurnLimitList {
		amt := "0"
		if !l.Amount.IsNil() {
			amt = l.Amount.String()
		}
		lim = append(lim, l.Denom+"="+amt)
	}
	for _, p := range g.TokenPairList {
		prs = append(prs, pairKey(p.RemoteDomain, p.RemoteToken)+"="+p.LocalToken)
	}
	for _, n := range g.UsedNoncesList {
		usd = append(usd, nonceKey(n.SourceDomain, n.Nonce))
	}
	for _, m := range g.TokenMessengerList {
		msg = append(msg, fmt.Sprintf("%d=%s", m.DomainId, hex.EncodeToString(m.Address)))
	}
	for _, l := range [][]string{att, lim, prs, usd, msg} {
		sort.Strings(l)
	}
	return fmt.Sprintf("roles=%s/%s/%s/%s thr=%d burnP=%v sendP=%v maxBody=%d next=%d att=%v lim=%v pairs=%v used=%v msgr=%v",
		g.Owner, g.AttesterManager, g.Pauser, g.TokenController, v.Threshold, v.BurnPaused, v.SendPaused, v.MaxBody, v.NextNonce, att, lim, prs, usd, msg)
}

func c17Product(r *Run, list1, list2 string) {
	e1 := c17Entries(list1)
	var e2 []c17Entry
	seqs2 := [][]int{{}}
	if list2 != "" {
		e2 = c17Entries(list2)
		seqs2 = c17Seqs(len(e2))
	}
	type variant struct {
		name string
		mod  func(g *cctptypes.GenesisState)
	}
	var variants []variant
	for mask := 0; mask < 32; mask++ {
		for _, roles := range []string{"valid", "empty"} {
			if list2 != "" && (mask != 0 && mask != 31 || roles == "empty") {
				continue
			}
			mask, roles := mask, roles
			variants = append(variants, variant{fmt.Sprintf("optionals=%03b flags=%02b roles=%s", mask&7, mask>>3, roles), func(g *cctptypes.GenesisState) {
				g.BurningAndMintingPaused = &cctptypes.BurningAndMintingPaused{Paused: mask&8 != 0}
				g.SendingAndReceivingMessagesPaused = &cctptypes.SendingAndReceivingMessagesPaused{Paused: mask&16 != 0}
				if mask&1 != 0 {
					g.MaxMessageBodySize = nil
				}
				if mask&2 != 0 {
					g.NextAvailableNonce = nil
				}
				if mask&4 != 0 {
					g.SignatureThreshold = nil
				}
				if roles == "empty" {
					g.Owner, g.AttesterManager, g.Pauser, g.TokenController = "", "", "", ""
				}
			}})
		}
	}
	hasDup := func(es []c17Entry, s []int) bool {
		seen := map[string]bool{}
		for _, i := range s {
			if seen[es[i].key] {
				return true
			}
			seen[es[i].key] = true
		}
		return false
	}
	for _, vr := range variants {
		for _, s1 := range c17Seqs(len(e1)) {
			for _, s2 := range seqs2 {
				if r.Expired() {
					r.Truncate("C17 deadline in genesis product")
					return
				}
				g := BaseGenesis()
				g.NextAvailableNonce = &cctptypes.Nonce{Nonce: 12}
				g.MaxMessageBodySize = &cctptypes.MaxMessageBodySize{Amount: 4321}
				g.AttesterList, g.PerMessageBurnLimitList, g.TokenPairList, g.UsedNoncesList, g.TokenMessengerList = nil, nil, nil, nil, nil
				// canonical content for the lists not under variation
				if list1 != "attesters" && list2 != "attesters" {
					g.AttesterList = []cctptypes.Attester{{Attester: Keys[2].Hex}, {Attester: Keys[3].Hex}}
				}
				if list1 != "pairs" && list2 != "pairs" {
					g.TokenPairList = []cctptypes.TokenPair{{RemoteDomain: 7, RemoteToken: RemoteToken0, LocalToken: "uusdc"}}
				}
				if list1 != "messengers" && list2 != "messengers" {
					g.TokenMessengerList = []cctptypes.RemoteTokenMessenger{{DomainId: 7, Address: RemoteMessenger0}}
				}
				for _, i := range s1 {
					e1[i].set(&g)
				}
				for _, i := range s2 {
					e2[i].set(&g)
				}
				vr.mod(&g)
				dup := hasDup(e1, s1) || (list2 != "" && hasDup(e2, s2))
				label := fmt.Sprintf("%s %s=%v %s=%v", vr.name, list1, s1, list2, s2)
				r.States++
				c17CheckGenesis(r, g, dup, label)
			}
		}
	}
}

func c17CheckGenesis(r *Run, g cctptypes.GenesisState, dup bool, label string) {
	rp := func(exp, obs string) Replay {
		return Replay{Kind: "genesis", Genesis: GenesisJSON(g), Data: map[string]any{"label": label}, Expected: exp, Observed: obs}
	}
	var verr error
	var pv any
	func() {
		defer func() { pv = recover() }()
		verr = g.Validate()
	}()
	r.Transitions++
	if pv != nil {
		r.Violate("C17 Validate panicked", fmt.Sprintf("%s: %v", label, pv), rp("", fmt.Sprint(pv)))
		return
	}
	if dup {
		r.Distinct("dup " + label)
		if verr == nil {
			which := "?"
			for _, l := range []string{"attesters", "limits", "pairs", "used", "messengers"} {
				if c17HasDupIn(&g, l) {
					which = l
				}
			}
			r.Violate("C17 Validate accepts a genesis with two entries under one key: "+which, label, rp("rejected", "accepted"))
		} else {
			r.Class("genesis-duplicate-rejected")
		}
		return
	}
	if verr != nil {
		r.Class("genesis-rejected")
		return
	}
	// init + export
	w := NewWorld(KindDB)
	var ipv any
	func() {
		defer func() { ipv = recover() }()
		w.InitCCTP(g)
	}()
	r.Transitions++
	if ipv != nil {
		r.Class("genesis-init-refused")
		return
	}
	var out *cctptypes.GenesisState
	func() {
		defer func() { ipv = recover() }()
		out = w.ExportCCTP()
	}()
	r.Transitions++
	if ipv != nil {
		r.Violate("C17 ExportGenesis panics on a state InitGenesis accepted", fmt.Sprintf("%s: %v", label, ipv), rp("", fmt.Sprint(ipv)))
		return
	}
	want, got := c17Canon(&g), c17Canon(out)
	if want != got {
		r.Violate("C17 export(init(g)) differs from g: "+c17DiffField(want, got), fmt.Sprintf("%s:\n genesis %s\n export  %s", label, want, got), rp(want, got))
		return
	}
	r.Class("genesis-roundtrip-ok")
	r.Distinct("ok " + label)
	if len(r.Samples) < 2 {
		r.Sample("genesis", map[string]any{"label": label, "canonical": want})
	}
}

func c17HasDupIn(g *cctptypes.GenesisState, l string) bool {
	seen := map[string]bool{}
	chk := func(k string) bool {
		if seen[k] {
			return true
		}
		seen[k] = true
		return false
	}
	switch l {
	case "attesters":
		for _, a := range g.AttesterList {
			if chk(a.Attester) {
				return true
			}
		}
	case "limits":
		for _, a := range g.PerMessageBurnLimitList {
			if chk(a.Denom) {
				return true
			}
		}
	case "pairs":
		for _, a := range g.TokenPairList {
			if chk(pairKey(a.RemoteDomain, a.RemoteToken)) {
				return true
			}
		}
	case "used":
		for _, a := range g.UsedNoncesList {
			if chk(nonceKey(a.SourceDomain, a.Nonce)) {
				return true
			}
		}
	case "messengers":
		for _, a := range g.TokenMessengerList {
			if chk(fmt.Sprint(a.DomainId)) {
				return true
			}
		}
	}
	return false
}

func c17DiffField(a, b string) string {
	fa, fb := strings.Fields(a), strings.Fields(b)
	for i := range fa {
		if i >= len(fb) || fa[i] != fb[i] {
			return strings.SplitN(fa[i], "=", 2)[0]
		}
	}
	return "?"
}

// ---------------------------------------------------------------------------
// reachable states: init(export(s)) reproduces the raw module store

func c17Reachable(r *Run, depth, shard int) {
	g := AdminGenesis()
	scn := Scenario{Name: "c17", Ledger: BaseLedger(), Genesis: g}
	signers := Keys[0:2]
	holders := map[Role]string{RoleOwner: Owner.Str, RoleAttMgr: AttMgr.Str, RolePauser: Pauser.Str, RoleTokenCtl: TokenCtl.Str, RolePending: Outsider.Str}
	var menu []Action
	for _, tx := range AdminTxs {
		menu = append(menu, tx.Make(holders[tx.Role]))
	}
	in1 := InboundBurn(DomEth, 1, big.NewInt(10), pad32(UserB.Addr), nil)
	in2 := InboundPlain(DomAvax, 1<<40, []byte("p"), nil)
	menu = append(menu,
		Act("updateOwner(A0) by A0", &cctptypes.MsgUpdateOwner{From: Owner.Str, NewOwner: Owner.Str}),
		Act("setMaxBurnAmountPerMessage(UATOM,2^200) by A3", &cctptypes.MsgSetMaxBurnAmountPerMessage{From: TokenCtl.Str, LocalToken: "UATOM", Amount: intFromBig(bigPow2(200))}),
		Act("setMaxBurnAmountPerMessage(uosmo,0) by A3", &cctptypes.MsgSetMaxBurnAmountPerMessage{From: TokenCtl.Str, LocalToken: "uosmo", Amount: math.NewInt(0)}),
		Act("updateMaxMessageBodySize(0) by A0", &cctptypes.MsgUpdateMaxMessageBodySize{From: Owner.Str, MessageSize: 0}), // a scalar whose stored encoding is empty
		MkSend(UserA.Str, DomEth, distinct32(0x21), []byte("a")),
		MkSendWithCaller(UserA.Str, DomEth, distinct32(0x21), []byte("a"), distinct32(0x22)),
		MkDeposit(UserA.Str, math.NewInt(9), DomEth, distinct32(0x24), "uusdc"),
		MkDepositWithCaller(UserA.Str, math.NewInt(4), DomAvax, distinct32(0x24), "uusdc", distinct32(0x25)),
		MkReceive(UserB.Str, in1, Attest(in1, signers), "burn(0,1,10)"),
		MkReceive(UserB.Str, in2, Attest(in2, signers), "plain(1,2^40)"),
	)
	bfs := &BFS{
		SeqDepth: 2,
		Scn:      scn, MaxDepth: depth, ValidatePaths: shard == 0, RootShard: shard, RootShards: c17Shards,
		Actions: func(n *Node, w *World) []Action {
			as := menu
			if u := envGet(n.Env, "u"); u != nil {
				as = append(append([]Action{}, as...), MkReplaceMessage(UserA.Str, u, Attest(u, signers), []byte("r"), distinct32(0x23), "first user message"))
			}
			if d := envGet(n.Env, "d"); d != nil {
				as = append(append([]Action{}, as...), MkReplaceDeposit(UserA.Str, d, Attest(d, signers), distinct32(0x26), distinct32(0x27), "first deposit"))
			}
			return as
		},
		Step: func(r *Run, pre *Node, a Action, o Outcome, w *World, post *Node) bool {
			if o.OK {
				if sent := MessageSentOf(o.Events); len(sent) == 1 {
					switch handlerName(a.Type) {
					case "SendMessage":
						post.Env = envPut(post.Env, "u", sent[0])
					case "DepositForBurn":
						post.Env = envPut(post.Env, "d", sent[0])
					}
				}
			}
			return true
		},
		State: func(r *Run, n *Node, w *World) {
			rp := func(exp, obs string) Replay {
				x := scn.Replay("actions", n.Path)
				x.Expected, x.Observed = exp, obs
				return x
			}
			var exported *cctptypes.GenesisState
			var pv any
			func() {
				defer func() { pv = recover() }()
				exported = w.ExportCCTP()
			}()
			r.Transitions++
			if pv != nil {
				r.Violate("C17 ExportGenesis panics in a reachable state", fmt.Sprintf("after %v: %v", descs(n.Path), pv), rp("", fmt.Sprint(pv)))
				return
			}
			if err := exported.Validate(); err != nil {
				r.Violate("C17 exported genesis of a reachable state fails Validate", fmt.Sprintf("after %v: %v", descs(n.Path), err), rp("valid", err.Error()))
				return
			}
			w2 := NewWorld(KindDB)
			func() {
				defer func() { pv = recover() }()
				cctp.InitGenesis(w2.ctx, w2.K, *exported)
			}()
			r.Transitions++
			if pv != nil {
				r.Violate("C17 InitGenesis panics on an exported reachable state", fmt.Sprintf("after %v: %v", descs(n.Path), pv), rp("", fmt.Sprint(pv)))
				return
			}
			orig := CCTPKVs(n.Dump)
			re := CCTPKVs(w2.Dump())
			om := map[string][]byte{}
			for _, kv := range orig {
				om[string(kv.K)] = kv.V
			}
			rm := map[string][]byte{}
			for _, kv := range re {
				rm[string(kv.K)] = kv.V
			}
			r.Class("reachable-roundtrip")
			r.Distinct(fmt.Sprintf("store-shape %d keys pending=%v", len(orig), om["pending-owner"] != nil))
			for k, v := range om {
				v2, ok := rm[k]
				switch {
				case !ok:
					r.Violate("C17 init(export(s)) missing-key "+c17KeyClass(k), fmt.Sprintf("after %v: stored entry %q=%x does not survive export/import", descs(n.Path), printable([]byte(k)), v), rp("key present", "missing"))
				case !bytes.Equal(v, v2):
					r.Violate("C17 init(export(s)) changed-value "+c17KeyClass(k), fmt.Sprintf("after %v: %q: %x -> %x", descs(n.Path), printable([]byte(k)), v, v2), rp(fmt.Sprintf("%x", v), fmt.Sprintf("%x", v2)))
				}
			}
			for k := range rm {
				if _, ok := om[k]; !ok {
					r.Violate("C17 init(export(s)) extra-key "+c17KeyClass(k), fmt.Sprintf("after %v: %q", descs(n.Path), printable([]byte(k))), rp("absent", "present"))
				}
			}
		},
	}
	bfs.Explore(r)
}

func c17KeyClass(k string) string {
	for _, p := range []string{cctptypes.AttesterKeyPrefix, cctptypes.PerMessageBurnLimitKeyPrefix, cctptypes.RemoteTokenMessengerKeyPrefix, cctptypes.TokenPairKeyPrefix, cctptypes.UsedNonceKeyPrefix,
		cctptypes.BurningAndMintingPausedKey, cctptypes.MaxMessageBodySizeKey, cctptypes.NextAvailableNonceKey, cctptypes.SendingAndReceivingMessagesPausedKey, cctptypes.SignatureThresholdKey} {
		if strings.HasPrefix(k, p) {
			return strings.TrimSuffix(strings.TrimSuffix(p, "/"), "/value")
		}
	}
	// role slots, named by what they are rather than by their bytes (a layout change must not rename a finding)
	for name, key := range map[string][]byte{"owner": cctptypes.OwnerKey, "pending-owner": cctptypes.PendingOwnerKey, "attester-manager": cctptypes.AttesterManagerKey,
		"pauser": cctptypes.PauserKey, "token-controller": cctptypes.TokenControllerKey} {
		if k == string(key) {
			return name
		}
	}
	return k
}

func c17Replay(rp *Replay) int {
	var g cctptypes.GenesisState
	if err := theCodec().UnmarshalJSON(rp.Genesis, &g); err != nil {
		fmt.Println(err)
		return 2
	}
	fmt.Println(" label:", rp.Data["label"])
	fmt.Println(" Validate():", g.Validate())
	func() {
		defer func() {
			if p := recover(); p != nil {
				fmt.Println(" init/export panic:", p)
			}
		}()
		w := NewWorld(KindDB)
		w.InitCCTP(g)
		fmt.Println(" genesis:", c17Canon(&g))
		fmt.Println(" export :", c17Canon(w.ExportCCTP()))
	}()
	return 0
}

// c17Large: lists longer than any page size or default limit (100): every entry must survive
// init + export, each list alone and all five together.
func c17Large(r *Run, n int) {
	lists := []string{"attesters", "limits", "pairs", "used", "messengers"}
	for _, l := range append(append([]string{}, lists...), "all") {
		g := LargeGenesis(n, l)
		r.States++
		c17CheckGenesis(r, g, false, fmt.Sprintf("large lists: %d entries in %s", n, l))
	}
}

// LargeGenesis: BaseGenesis with n entries in the named keyed list ("all": in each of the five).
func LargeGenesis(n int, which string) cctptypes.GenesisState {
	fill := map[string]func(g *cctptypes.GenesisState){
		"attesters": func(g *cctptypes.GenesisState) {
			g.AttesterList = nil
			for i := 0; i < n; i++ {
				g.AttesterList = append(g.AttesterList, cctptypes.Attester{Attester: fmt.Sprintf("04%062x", i+1)})
			}
		},
		"limits": func(g *cctptypes.GenesisState) {
			g.PerMessageBurnLimitList = nil
			for i := 0; i < n; i++ {
				g.PerMessageBurnLimitList = append(g.PerMessageBurnLimitList, cctptypes.PerMessageBurnLimit{Denom: fmt.Sprintf("utok%d", i), Amount: math.NewInt(int64(i))})
			}
		},
		"pairs": func(g *cctptypes.GenesisState) {
			g.TokenPairList = nil
			for i := 0; i < n; i++ {
				g.TokenPairList = append(g.TokenPairList, cctptypes.TokenPair{RemoteDomain: uint32(i % 3), RemoteToken: distinct32(byte(i)), LocalToken: "uusdc"})
				g.TokenPairList[i].RemoteToken[1] = byte(i >> 8)
			}
		},
		"used": func(g *cctptypes.GenesisState) {
			g.UsedNoncesList = nil
			for i := 0; i < n; i++ {
				g.UsedNoncesList = append(g.UsedNoncesList, cctptypes.Nonce{SourceDomain: uint32(i % 2), Nonce: uint64(i / 2)})
			}
		},
		"messengers": func(g *cctptypes.GenesisState) {
			g.TokenMessengerList = nil
			for i := 0; i < n; i++ {
				g.TokenMessengerList = append(g.TokenMessengerList, cctptypes.RemoteTokenMessenger{DomainId: uint32(i), Address: distinct32(byte(i))})
			}
		},
	}
	g := BaseGenesis()
	for _, k := range []string{"attesters", "limits", "pairs", "used", "messengers"} {
		if which == k || which == "all" {
			fill[k](&g)
		}
	}
	return g
}
