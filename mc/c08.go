package main

// C08 -- deposits are accepted exactly under the documented preconditions.
// Product of configurations (built by real admin transactions / ledger
// variants) x requests; success iff the conjunction of the preconditions.

import (
	"fmt"
	"math/big"

	"cosmossdk.io/math"

	cctptypes "github.com/circlefin/noble-cctp/x/cctp/types"
)

func init() {
	register(&Check{
		ID:    "C08",
		Level: "model_checking",
		Rule: "full Cartesian product: configuration (per-message limit set through the real handler with mixed-case spelling x 4 pause-flag states x max body size around 132 x minting denom spelling x burn-side state) " +
			"x request (destination with registered / all-zero / no messenger x amounts {-1,0,1,balance,balance+1,limit-1,limit,limit+1,2^64,2^256-1} x burn token spellings x mint recipient shapes x destination caller shapes x depositors with different balances x both variants); " +
			"success iff conjunction, 'can pay' and 'burn succeeds' answered by dry-running the expected transfer and burn on the real bank/fiattokenfactory; " +
			"distinct_nontrivial = distinct truth-value vectors of the preconditions observed",
		Assumptions: []string{"absent amount is left to C20", "limits are configured through the handler (genesis limits under un-lowercased denoms are outside the alphabet)"},
		Jobs:        c08Jobs,
		Vacuity: func(m *Run) []string {
			if m.Classes["ok"] == 0 || m.Classes["error"] == 0 {
				return []string{"C08 vacuous"}
			}
			return nil
		},
	})
}

type c08Config struct {
	Limit   string // "" none
	Burn    bool
	Send    bool
	MaxBody uint64
	Denom   string
	BurnEnv int // 0 ok, 1 ftf paused, 2 module not a minter, 3 module blacklisted
	Whale   bool
}

func (c c08Config) String() string {
	return fmt.Sprintf("limit=%q burnPaused=%v sendPaused=%v maxBody=%d denom=%s burnEnv=%d whale=%v", c.Limit, c.Burn, c.Send, c.MaxBody, c.Denom, c.BurnEnv, c.Whale)
}

var max256 = new(big.Int).Sub(bigPow2(256), big.NewInt(1))

func c08Jobs(tier string) []Job {
	limits := []string{"", "0", "1000"}
	bodies := []uint64{131, 132, 8000}
	denoms := []string{"uusdc", "uUSDC"}
	envs := []int{0, 1}
	if tier == "thorough" {
		limits = []string{"", "0", "1", "1000", max256.String()}
		bodies = []uint64{131, 132, 133, 8000}
		denoms = []string{"uusdc", "uUSDC"}
		envs = []int{0, 1, 2, 3}
	}
	var jobs []Job
	add := func(c c08Config) {
		jobs = append(jobs, Job{Name: "config " + c.String(), Run: func(r *Run) { c08Run(r, c) }})
	}
	for _, l := range limits {
		for _, b := range []bool{false, true} {
			for _, s := range []bool{false, true} {
				for _, mb := range bodies {
					for _, d := range denoms {
						for _, e := range envs {
							add(c08Config{Limit: l, Burn: b, Send: s, MaxBody: mb, Denom: d, BurnEnv: e})
						}
					}
				}
			}
		}
	}
	// a single depositor holding the whole 256-bit supply: amount = limit = 2^256-1
	add(c08Config{Limit: max256.String(), MaxBody: 8000, Denom: "uusdc", Whale: true})
	add(c08Config{Limit: "", MaxBody: 132, Denom: "uusdc", Whale: true})
	// a maximum body size of zero (its stored encoding is empty): the 132-byte burn body never fits
	add(c08Config{Limit: "", MaxBody: 0, Denom: "uusdc"})
	add(c08Config{Limit: "1000", MaxBody: 0, Denom: "uUSDC", BurnEnv: 1})
	return jobs
}

func mixCase(s string, k int) string {
	b := []byte(s)
	for i := range b {
		if (i+k)%2 == 0 && b[i] >= 'a' && b[i] <= 'z' {
			b[i] -= 32
		}
	}
	return string(b)
}

func c08Run(r *Run, c c08Config) {
	g := BaseGenesis()
	lg := DefaultLedger()
	lg.MintingDenom = c.Denom
	lg.Balances[UserA.Str] = "1000000000000000000000000" // >= 2^64 and every small amount
	lg.Balances[UserB.Str] = "500"
	if c.Whale {
		lg.Balances = map[string]string{UserA.Str: max256.String()}
	}
	switch c.BurnEnv {
	case 1:
		lg.FTFPaused = true
	case 2:
		lg.ModuleIsMinter = false
	case 3:
		lg.Blacklisted = [][]byte{cctptypes.ModuleAddress}
	}
	scn := Scenario{Name: "c08", Ledger: lg, Genesis: g}
	w := scn.Build(KindDB)
	var pre []Action
	do := func(a Action) {
		o := w.Apply(a)
		pre = append(pre, a)
		if !o.OK {
			panic(preambleFailed{fmt.Sprintf("%s: %s%s", a.Desc, o.Err, o.PanicVal)})
		}
	}
	do(Act("addRemoteTokenMessenger(9, zero) by A0", &cctptypes.MsgAddRemoteTokenMessenger{From: Owner.Str, DomainId: 9, Address: make([]byte, 32)}))
	if c.Limit != "" {
		do(Act(fmt.Sprintf("setMaxBurnAmountPerMessage(%s,%s) by A3", mixCase(c.Denom, 1), c.Limit),
			&cctptypes.MsgSetMaxBurnAmountPerMessage{From: TokenCtl.Str, LocalToken: mixCase(c.Denom, 1), Amount: mustInt(c.Limit)}))
	}
	do(Act(fmt.Sprintf("updateMaxMessageBodySize(%d) by A0", c.MaxBody), &cctptypes.MsgUpdateMaxMessageBodySize{From: Owner.Str, MessageSize: c.MaxBody}))
	if c.Burn {
		do(Act("pauseBurningAndMinting by A2", &cctptypes.MsgPauseBurningAndMinting{From: Pauser.Str}))
	}
	if c.Send {
		do(Act("pauseSendingAndReceiving by A2", &cctptypes.MsgPauseSendingAndReceivingMessages{From: Pauser.Str}))
	}
	base := w.Dump()
	baseHash := HashBytes(base)
	view := ViewOf(w)
	r.States++
	seenPost := map[string]bool{}

	thorough := r.Tier == "thorough"
	// amounts
	amts := []math.Int{math.NewInt(-1), math.NewInt(0), math.NewInt(1), math.NewInt(500), math.NewInt(501)}
	if c.Limit != "" {
		l := mustInt(c.Limit)
		if l.IsPositive() {
			amts = append(amts, l.SubRaw(1))
		}
		amts = append(amts, l)
		if l.BigInt().Cmp(max256) < 0 {
			amts = append(amts, l.AddRaw(1))
		}
	} else {
		amts = append(amts, math.NewInt(999), math.NewInt(1000), math.NewInt(1001))
	}
	if thorough || c.Whale {
		amts = append(amts, intFromBig(bigPow2(64)), intFromBig(max256))
	}
	tokens := []string{c.Denom, mixCase(c.Denom, 0), "uatom"}
	recips := [][]byte{distinct32(0x24), make([]byte, 32), nil, distinct32(0x24)[:31], append(distinct32(0x24), 1), make([]byte, 33), append(make([]byte, 32), distinct32(0x24)...)} // too long: 33 bytes, 33 zero bytes, 32 zero bytes followed by 32 more
	callers := [][]byte{distinct32(0x25), make([]byte, 32), {}, distinct32(0x25)[:20], append(distinct32(0x25), 1)}
	depositors := []Account{UserA, UserB}
	if thorough {
		tokens = append(tokens, "")
		recips = append(recips, []byte{})
		callers = append(callers, distinct32(0x25)[:31], append(distinct32(0x25), distinct32(0x26)...))
		depositors = append(depositors, Outsider)
	}
	if c.Whale {
		tokens, recips, callers, depositors = tokens[:1], recips[:2], callers[:2], []Account{UserA}
	}
	dsts := []uint32{DomEth, 9, 8}

	run := func(a Action, desc string) {
		w.Load(base)
		p := Predict(w, view, a)
		o := w.Apply(a)
		r.Transitions++
		r.Class(o.Class())
		r.Distinct(p.Kind + ":" + p.CondKey())
		post := w.Dump()
		ph := HashBytes(post)
		if !seenPost[ph] {
			seenPost[ph] = true
			r.States++
		}
		path := func() []Action { return append(append([]Action{}, pre...), a) }
		switch {
		case o.Panicked:
			r.Violate("C08 panic in deposit", desc+": "+o.PanicVal, scn.Replay("actions", path()))
		case ExpMismatch(p, o):
			rp := scn.Replay("actions", path())
			rp.Expected, rp.Observed = p.Exp.String()+" ("+p.Why+")", o.Class()+" "+o.Err
			fp := "C08 deposit accepted although a precondition is false: " + firstFailed(p)
			if p.Exp == MustSucceed {
				fp = "C08 deposit rejected although every precondition holds"
			}
			r.Violate(fp, fmt.Sprintf("[%s] %s: expected %s (%s), got %s %s", c, desc, p.Exp, p.Why, o.Class(), o.Err), rp)
		case !o.OK && ph != baseHash:
			r.Violate("C08 rejected deposit changed state", fmt.Sprintf("[%s] %s: %v", c, desc, DiffDumps(base, post)), scn.Replay("actions", path()))
		}
		if len(r.Samples) < 4 && (o.OK || r.Transitions%997 == 0) {
			r.Sample("deposit", map[string]any{"config": c.String(), "request": desc, "expected": p.Exp.String(), "why": p.Why, "observed": o.Class()})
		}
	}
	for _, dst := range dsts {
		for _, amt := range amts {
			for ti, tok := range tokens {
				for ri, rc := range recips {
					for _, dep := range depositors {
						if r.Expired() {
							r.Truncate("C08 deadline in " + c.String())
							return
						}
						desc := fmt.Sprintf("dst=%d amount=%s token#%d=%q recipient#%d by %s", dst, amt, ti, tok, ri, dep.Name)
						run(MkDeposit(dep.Str, amt, dst, rc, tok), "plain "+desc)
						for ci, cl := range callers {
							run(MkDepositWithCaller(dep.Str, amt, dst, rc, tok, cl), fmt.Sprintf("withCaller#%d %s", ci, desc))
						}
					}
				}
			}
		}
	}
}

func firstFailed(p Pred) string {
	f := p.failed()
	if len(f) == 0 {
		return ""
	}
	return f[0]
}
