package main

// C02 -- an attested message is consumed at most once.
// (a) BFS to closure over receives of a small universe of (domain, nonce)
// pairs with different validly attested bodies / attestation encodings /
// submitters, interleaved with pausing, attester rotation and token re-linking;
// (b) key-injectivity grid over boundary (domain, nonce) pairs.

import (
	"fmt"
	"math/big"
	"sort"
	"strings"

	"github.com/cosmos/cosmos-sdk/types/query"

	cctptypes "github.com/circlefin/noble-cctp/x/cctp/types"

	"cctpmc/refcodec"
)

func init() {
	register(&Check{
		ID:    "C02",
		Level: "model_checking",
		Rule: "BFS to closure of the used-nonce lattice over pairs {0,1}x{0,2^64-1} (quick) / {0,1}x{0,1,2^64-1} (thorough): each pair receivable as a plain message (v in {0,1}, submitter A) or as a module-addressed burn message " +
			"(legacy v 27/28, submitter B), plus failing receives, pause/unpause, disabling and re-enabling an attester, unlinking and re-linking the token pair, removing and re-adding the remote token messenger, and the chain advancing a million blocks / ten years; every other administrative transaction type probed in every state; used set observed through single query, paginated list and export in every state; " +
			"plus the ordered-pair grid {0,1,255,256,0xFF000000,2^32-1}x{0,1,255,256,2^32-1,2^32,2^64-1} for key injectivity; distinct_nontrivial counts distinct (used set, transaction, outcome) triples and grid pairs",
		Assumptions: []string{"attestations are produced by the harness keys (honest attesters); forgery is not attempted"},
		Jobs:        c02Jobs,
		Vacuity: func(m *Run) []string {
			if m.Classes["ok"] == 0 || m.Classes["error"] == 0 || m.Classes["replay-rejected"] == 0 {
				return []string{fmt.Sprintf("C02 vacuous: %v", m.Classes)}
			}
			return nil
		},
	})
}

func c02Jobs(tier string) []Job {
	jobs := []Job{{Name: "used-nonce-bfs", Run: func(r *Run) { c02BFS(r) }}}
	jobs = append(jobs, Job{Name: "genesis-listed-pairs", Run: c02Genesis}, Job{Name: "genesis-listed-pairs-large", Run: c02GenesisLarge})
	doms := []uint32{0, 1, 255, 256, 0xFF000000, 1<<32 - 1}
	for _, d := range doms {
		d := d
		jobs = append(jobs, Job{Name: fmt.Sprintf("key-grid-domain-%d", d), Run: func(r *Run) { c02Grid(r, d, doms) }})
	}
	return jobs
}

type noncePair struct {
	D uint32
	N uint64
}

func (p noncePair) key() string { return nonceKey(p.D, p.N) }

// observeUsed reads the used set through the three public paths.
func observeUsed(w *World, universe []noncePair) (single map[string]bool, list []string, export []string, err error) {
	cctx, _ := w.ctx.CacheContext()
	single = map[string]bool{}
	for _, p := range universe {
		resp, e := w.K.UsedNonce(cctx, &cctptypes.QueryGetUsedNonceRequest{SourceDomain: p.D, Nonce: p.N})
		if e == nil {
			if resp.Nonce.SourceDomain != p.D || resp.Nonce.Nonce != p.N {
				return nil, nil, nil, fmt.Errorf("single query for %s answered %v", p.key(), resp.Nonce)
			}
			single[p.key()] = true
		}
	}
	var next []byte
	for {
		resp, e := w.K.UsedNonces(cctx, &cctptypes.QueryAllUsedNoncesRequest{Pagination: &query.PageRequest{Key: next, Limit: 2}})
		if e != nil {
			return nil, nil, nil, e
		}
		for _, n := range resp.UsedNonces {
			list = append(list, nonceKey(n.SourceDomain, n.Nonce))
		}
		if resp.Pagination == nil || len(resp.Pagination.NextKey) == 0 {
			break
		}
		next = resp.Pagination.NextKey
	}
	for _, n := range w.ExportCCTP().UsedNoncesList {
		export = append(export, nonceKey(n.SourceDomain, n.Nonce))
	}
	sort.Strings(list)
	sort.Strings(export)
	return
}

func c02BFS(r *Run) {
	g := BaseGenesis()
	g.AttesterList = []cctptypes.Attester{{Attester: Keys[0].Hex}, {Attester: Keys[1].Hex}, {Attester: Keys[2].Hex}}
	g.SignatureThreshold = &cctptypes.SignatureThreshold{Amount: 2}
	g.TokenPairList = append(g.TokenPairList, cctptypes.TokenPair{RemoteDomain: DomAvax, RemoteToken: RemoteToken1, LocalToken: "uusdc"})
	g.UsedNoncesList = []cctptypes.Nonce{{SourceDomain: 1, Nonce: 5}}
	scn := Scenario{Name: "c02", Ledger: BaseLedger(), Genesis: g}
	nonces := []uint64{0, 1<<64 - 1}
	if r.Tier == "thorough" {
		nonces = []uint64{0, 1, 1<<64 - 1}
	}
	var pairs []noncePair
	for _, d := range []uint32{0, 1} {
		for _, n := range nonces {
			pairs = append(pairs, noncePair{d, n})
		}
	}
	universe := append(append([]noncePair{}, pairs...), noncePair{1, 5}, noncePair{5, 1}, noncePair{0, 5})
	signers := Keys[0:2] // K1,K2 sign; K2 is the one rotated out and back

	legacy := func(att []byte) []byte {
		out := append([]byte{}, att...)
		for i := 64; i < len(out); i += 65 {
			out[i] += 27
		}
		return out
	}
	var menu []Action
	for i, p := range pairs {
		plain := InboundPlain(p.D, p.N, []byte(fmt.Sprintf("plain %s", p.key())), nil)
		// amounts are distinct powers of two so that the ledger records *which* pairs minted; caller = submitter
		burn := InboundBurn(p.D, p.N, new(big.Int).Lsh(big.NewInt(1), uint(i)), pad32(Outsider.Addr), pad32(UserB.Addr))
		menu = append(menu,
			MkReceive(UserA.Str, plain, Attest(plain, signers), "plain "+p.key()),
			MkReceive(UserB.Str, burn, legacy(Attest(burn, signers)), "burn "+p.key()+" legacy-v"))
	}
	bad := InboundPlain(0, 0, []byte("bad attestation"), nil)
	wrongDst := RefMsg(0, 1, 7, 0, distinct32(0x66), distinct32(0x77), Zero32, []byte("wrong destination"))
	menu = append(menu,
		MkReceive(UserA.Str, bad, Attest(bad, Keys[3:5]), "plain 0/0 attested by unknown keys"),
		MkReceive(UserA.Str, wrongDst, Attest(wrongDst, signers), "plain 1/0 for destination 7"),
		Act("pauseSendingAndReceiving by A2", &cctptypes.MsgPauseSendingAndReceivingMessages{From: Pauser.Str}),
		Act("unpauseSendingAndReceiving by A2", &cctptypes.MsgUnpauseSendingAndReceivingMessages{From: Pauser.Str}),
		Act("disableAttester(K2) by A1", &cctptypes.MsgDisableAttester{From: AttMgr.Str, Attester: Keys[1].Hex}),
		Act("enableAttester(K2) by A1", &cctptypes.MsgEnableAttester{From: AttMgr.Str, Attester: Keys[1].Hex}),
		Act("unlinkTokenPair(0,token0) by A3", &cctptypes.MsgUnlinkTokenPair{From: TokenCtl.Str, RemoteDomain: DomEth, RemoteToken: RemoteToken0}),
		Act("linkTokenPair(0,token0) by A3", &cctptypes.MsgLinkTokenPair{From: TokenCtl.Str, RemoteDomain: DomEth, RemoteToken: RemoteToken0, LocalToken: "uusdc"}),
		Act("removeRemoteTokenMessenger(0) by A0", &cctptypes.MsgRemoveRemoteTokenMessenger{From: Owner.Str, DomainId: DomEth}),
		Act("addRemoteTokenMessenger(0) by A0", &cctptypes.MsgAddRemoteTokenMessenger{From: Owner.Str, DomainId: DomEth, Address: RemoteMessenger0}),
	)
	if r.Tier == "thorough" {
		menu = append(menu,
			Act("pauseBurningAndMinting by A2", &cctptypes.MsgPauseBurningAndMinting{From: Pauser.Str}),
			Act("unpauseBurningAndMinting by A2", &cctptypes.MsgUnpauseBurningAndMinting{From: Pauser.Str}))
	}

	type model struct{ used map[string]bool }
	mkey := func(u map[string]bool) string { return strings.Join(sortedKeys(u), ",") }

	bfs := &BFS{
		SeqDepth: map[string]int{"quick": 2, "thorough": 3}[r.Tier],
		Scn:      scn, MaxDepth: 200, ValidatePaths: true,
		Init: func(r *Run, w *World, root *Node) {
			u := map[string]bool{"1/5": true}
			root.Model, root.MKey = model{u}, mkey(u)
		},
		Actions: func(n *Node, w *World) []Action {
			if w.ctx.BlockHeight() == 1 { // the chain may move a million blocks / ten years ahead once
				return append(append([]Action{}, menu...), AdvanceAction())
			}
			return menu
		},
		Step: func(r *Run, pre *Node, a Action, o Outcome, w *World, post *Node) bool {
			m := pre.Model.(model)
			next := m
			if a.Type == AdvanceType {
				return true // "a pair reported as used stays used for the rest of the chain's history": checked in State()
			}
			rp := func(exp, obs string) Replay {
				x := scn.Replay("actions", post.Path)
				x.Expected, x.Observed = exp, obs
				return x
			}
			if o.Panicked {
				r.Violate("C02 panic", a.Desc+": "+o.PanicVal, rp("", ""))
				return false
			}
			if rm, ok := mustDecode(a).(*cctptypes.MsgReceiveMessage); ok {
				dm, err := refcodec.DecodeMessage(rm.Message)
				if err == nil {
					k := nonceKey(dm.SourceDomain, dm.Nonce)
					if m.used[k] {
						r.Class("replay-attempt")
						if o.OK {
							r.Violate("C02 second receive for a used (domain, nonce) succeeded",
								fmt.Sprintf("pair %s was already used (used set {%s}); %s succeeded after %v", k, mkey(m.used), a.Desc, descs(pre.Path)), rp("MUST_FAIL", "ok"))
						} else {
							r.Class("replay-rejected")
						}
					}
					if o.OK {
						u := map[string]bool{k: true}
						for x := range m.used {
							u[x] = true
						}
						next = model{u}
					}
				}
				r.Distinct(fmt.Sprintf("%s|%s|%s", mkey(m.used), a.Desc, o.Class()))
			}
			post.Model, post.MKey = next, mkey(next.used)
			if pre.Depth < 2 && len(r.Samples) < 6 {
				r.Sample("step", map[string]any{"used_before": mkey(m.used), "tx": a.Desc, "observed": o.Class()})
			}
			return true
		},
		State: func(r *Run, n *Node, w *World) {
			m := n.Model.(model)
			single, list, export, err := observeUsed(w, universe)
			rp := func(exp, obs string) Replay {
				x := scn.Replay("actions", n.Path)
				x.Expected, x.Observed = exp, obs
				return x
			}
			if err != nil {
				r.Violate("C02 used-nonce query failed", err.Error(), rp("", ""))
				return
			}
			want := mkey(m.used)
			if got := mkey(single); got != want {
				r.Violate("C02 used-nonce single query disagrees with the history", fmt.Sprintf("after %v: query {%s}, history {%s}", descs(n.Path), got, want), rp(want, got))
			}
			if got := strings.Join(list, ","); got != want {
				r.Violate("C02 used-nonce list disagrees with the history", fmt.Sprintf("after %v: list {%s}, history {%s}", descs(n.Path), got, want), rp(want, got))
			}
			if got := strings.Join(export, ","); got != want {
				r.Violate("C02 exported used-nonce list disagrees with the history", fmt.Sprintf("after %v: export {%s}, history {%s}", descs(n.Path), got, want), rp(want, got))
			}
			// no administrative transaction of any type forgets (or invents) a used pair
			holders := map[Role]string{RoleOwner: Owner.Str, RoleAttMgr: AttMgr.Str, RolePauser: Pauser.Str, RoleTokenCtl: TokenCtl.Str, RolePending: Outsider.Str}
			for _, tx := range AdminTxs {
				a := tx.Make(holders[tx.Role])
				w.Load(n.Dump)
				o := w.Apply(a)
				r.Transitions++
				r.Class(o.Class())
				_, l2, _, err := observeUsed(w, nil)
				if err == nil && strings.Join(l2, ",") != want {
					x := scn.Replay("actions", append(append([]Action{}, n.Path...), a))
					x.Expected, x.Observed = want, strings.Join(l2, ",")
					r.Violate("C02 an administrative transaction changed the used-nonce set: "+tx.Name, fmt.Sprintf("after %v then %s: used {%s}, before {%s}", descs(n.Path), a.Desc, strings.Join(l2, ","), want), x)
				}
			}
		},
	}
	bfs.Explore(r)
}

// c02Grid: mark p=(d,*) by a real receive on a fresh world, then query every q of the grid.
func c02Grid(r *Run, d uint32, doms []uint32) {
	g := BaseGenesis()
	scn := Scenario{Name: "c02-grid", Ledger: BaseLedger(), Genesis: g}
	nonces := []uint64{0, 1, 255, 256, 1<<32 - 1, 1 << 32, 1<<64 - 1}
	var grid []noncePair
	for _, dd := range doms {
		for _, n := range nonces {
			grid = append(grid, noncePair{dd, n})
		}
	}
	w := scn.Build(KindDB)
	base := w.Dump()
	r.States++
	for _, n := range nonces {
		p := noncePair{d, n}
		m := InboundPlain(p.D, p.N, []byte("grid"), nil)
		a := MkReceive(UserA.Str, m, Attest(m, Keys[0:2]), "plain "+p.key())
		w.Load(base)
		o := w.Apply(a)
		r.Transitions++
		r.Class(o.Class())
		if !o.OK {
			r.HarnessError("grid receive %s failed: %s%s", p.key(), o.Err, o.PanicVal)
			continue
		}
		r.States++
		single, list, export, err := observeUsed(w, grid)
		r.Evaluations += len(grid)
		if err == nil && (len(export) != 1 || export[0] != p.key()) {
			r.Violate("C02 exported used-nonce list after one receive is not exactly that pair", fmt.Sprintf("marked %s, export %v", p.key(), export), scn.Replay("actions", []Action{a}))
		}
		if err != nil {
			r.Violate("C02 used-nonce query failed", err.Error(), scn.Replay("actions", []Action{a}))
			continue
		}
		for _, q := range grid {
			r.Distinct("grid " + p.key() + "->" + q.key())
			if single[q.key()] != (q == p) {
				rp := scn.Replay("actions", []Action{a})
				rp.Data = map[string]any{"marked": p.key(), "queried": q.key()}
				rp.Expected, rp.Observed = fmt.Sprint(q == p), fmt.Sprint(single[q.key()])
				r.Violate("C02 used-nonce key is not injective", fmt.Sprintf("marked %s, query for %s reports used=%v", p.key(), q.key(), single[q.key()]), rp)
			}
		}
		if len(list) != 1 || list[0] != p.key() {
			r.Violate("C02 used-nonce list after one receive is not exactly that pair", fmt.Sprintf("marked %s, list %v", p.key(), list), scn.Replay("actions", []Action{a}))
		}
		// second mark on top: both must be present and distinct
		for _, q := range grid {
			if q == p {
				continue
			}
			m2 := InboundPlain(q.D, q.N, []byte("grid2"), nil)
			a2 := MkReceive(UserA.Str, m2, Attest(m2, Keys[0:2]), "plain "+q.key())
			w.Load(base)
			w.Apply(a)
			o2 := w.Apply(a2)
			r.Transitions += 2
			r.Class(o2.Class())
			if !o2.OK {
				rp := scn.Replay("actions", []Action{a, a2})
				r.Violate("C02 receive for a different pair rejected as used", fmt.Sprintf("after %s, %s failed: %s", p.key(), q.key(), o2.Err), rp)
				continue
			}
			_, l2, _, _ := observeUsed(w, nil)
			if len(l2) != 2 {
				r.Violate("C02 two distinct pairs occupy one used-nonce entry", fmt.Sprintf("marked %s and %s, list %v", p.key(), q.key(), l2), scn.Replay("actions", []Action{a, a2}))
			}
		}
		if n == 0 {
			r.Sample("grid", map[string]any{"marked": p.key(), "queried": len(grid), "found": mkeyOf(single)})
		}
	}
}

func mkeyOf(m map[string]bool) string { return strings.Join(sortedKeys(m), ",") }

// c02Genesis: "a pair is reported as used ... if genesis listed it" -- for every non-empty subset of
// four listed pairs and every combination of absent optional genesis scalars, each listed pair is
// reported used by all three read paths, nothing else is, and a validly attested message carrying a
// listed pair is refused.
func c02Genesis(r *Run) {
	cands := []noncePair{{1, 5}, {0, 0}, {3, 0}, {1<<32 - 1, 1<<64 - 1}}
	universe := append(append([]noncePair{}, cands...), noncePair{0, 1}, noncePair{3, 5}, noncePair{1, 0})
	for mask := 0; mask < 8; mask++ {
		for sub := 1; sub < 1<<len(cands); sub++ {
			g := BaseGenesis()
			g.TokenMessengerList = append(g.TokenMessengerList, cctptypes.RemoteTokenMessenger{DomainId: 3, Address: distinct32(0xB3)})
			if mask&1 != 0 {
				g.NextAvailableNonce = nil
			}
			if mask&2 != 0 {
				g.MaxMessageBodySize = nil
			}
			if mask&4 != 0 {
				g.BurningAndMintingPaused, g.SendingAndReceivingMessagesPaused = nil, nil
			}
			listed := map[string]bool{}
			g.UsedNoncesList = nil
			for i, c := range cands {
				if sub&(1<<i) != 0 {
					g.UsedNoncesList = append(g.UsedNoncesList, cctptypes.Nonce{SourceDomain: c.D, Nonce: c.N})
					listed[c.key()] = true
				}
			}
			scn := Scenario{Name: fmt.Sprintf("c02-genesis optionals-absent=%03b listed=%s", mask, strings.Join(sortedKeys(listed), ",")), Ledger: BaseLedger(), Genesis: g}
			w := scn.Build(KindDB)
			base := w.Dump()
			r.States++
			single, list, export, err := observeUsed(w, universe)
			r.Evaluations += len(universe)
			rp := func(path []Action, exp, obs string) Replay {
				x := scn.Replay("actions", path)
				x.Expected, x.Observed = exp, obs
				return x
			}
			want := strings.Join(sortedKeys(listed), ",")
			if err != nil {
				r.Violate("C02 used-nonce query failed", scn.Name+": "+err.Error(), rp(nil, "", ""))
				continue
			}
			got := strings.Join(sortedKeys(single), ",")
			r.Distinct(fmt.Sprintf("genesis %03b %s", mask, want))
			if got != want || strings.Join(sortedStrs(list), ",") != want || strings.Join(sortedStrs(export), ",") != want {
				r.Violate("C02 pairs listed in genesis are not exactly the pairs reported as used", fmt.Sprintf("%s: single queries %s, list %v, export %v", scn.Name, got, list, export), rp(nil, want, got))
				continue
			}
			for _, c := range cands {
				if !listed[c.key()] {
					continue
				}
				m := InboundPlain(c.D, c.N, []byte("listed in genesis"), nil)
				a := MkReceive(UserA.Str, m, Attest(m, Keys[0:2]), "plain "+c.key()+" (listed in genesis)")
				w.Load(base)
				o := w.Apply(a)
				r.Transitions++
				if o.OK {
					r.Class("ok")
					r.Violate("C02 a pair listed in genesis was received", fmt.Sprintf("%s: %s accepted", scn.Name, a.Desc), rp([]Action{a}, "refused", "ok"))
				} else {
					r.Class("replay-rejected")
				}
			}
		}
	}
}

// c02GenesisLarge: more listed pairs than any default page (100): all of them are reported used
// by the single query, the list query and the export, and nothing else is.
func c02GenesisLarge(r *Run) {
	for _, n := range []int{101, 130} {
		g := LargeGenesis(n, "used")
		scn := Scenario{Name: fmt.Sprintf("c02-genesis %d listed pairs", n), Ledger: BaseLedger(), Genesis: g}
		w := scn.Build(KindDB)
		r.States++
		var universe []noncePair
		listed := map[string]bool{}
		for _, x := range g.UsedNoncesList {
			universe = append(universe, noncePair{x.SourceDomain, x.Nonce})
			listed[nonceKey(x.SourceDomain, x.Nonce)] = true
		}
		universe = append(universe, noncePair{0, uint64(n)}, noncePair{2, 0}, noncePair{1, 1 << 40})
		single, list, export, err := observeUsed(w, universe)
		r.Evaluations += len(universe)
		want := strings.Join(sortedKeys(listed), ",")
		x := scn.Replay("actions", nil)
		if err != nil {
			r.Violate("C02 used-nonce query failed", scn.Name+": "+err.Error(), x)
			continue
		}
		r.Distinct(scn.Name)
		if strings.Join(sortedKeys(single), ",") != want || strings.Join(sortedStrs(list), ",") != want || strings.Join(sortedStrs(export), ",") != want {
			x.Expected, x.Observed = fmt.Sprintf("%d pairs", n), fmt.Sprintf("single %d, list %d, export %d", len(single), len(list), len(export))
			r.Violate("C02 pairs listed in genesis are not exactly the pairs reported as used", fmt.Sprintf("%s: single queries report %d, list %d, export %d", scn.Name, len(single), len(list), len(export)), x)
		}
	}
}

func sortedStrs(a []string) []string {
	out := append([]string{}, a...)
	sort.Strings(out)
	return out
}
