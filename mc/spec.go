package main

// The reference model: a three-valued prediction for every transaction type,
// written from the property statements (not from the handlers). Where an
// expectation depends on the ledger ("the depositor can pay and the burn
// succeeds", "the mint succeeds") the expected request is dry-run against the
// real bank / fiattokenfactory on a discarded branch.

import (
	"bytes"
	"fmt"
	"math/big"
	"strings"

	"cosmossdk.io/math"
	sdk "github.com/cosmos/cosmos-sdk/types"
	"github.com/cosmos/gogoproto/proto"

	ftftypes "github.com/circlefin/noble-fiattokenfactory/x/fiattokenfactory/types"

	cctptypes "github.com/circlefin/noble-cctp/x/cctp/types"

	"cctpmc/refcodec"
)

func (v View) Clone() View {
	n := v
	n.Attesters = append([]string{}, v.Attesters...)
	n.Limits = map[string]string{}
	for k, x := range v.Limits {
		n.Limits[k] = x
	}
	n.Pairs = map[string]string{}
	for k, x := range v.Pairs {
		n.Pairs[k] = x
	}
	n.Messengers = map[uint32]string{}
	for k, x := range v.Messengers {
		n.Messengers[k] = x
	}
	n.Used = map[string]bool{}
	for k, x := range v.Used {
		n.Used[k] = x
	}
	return n
}

func (v View) hasAttester(s string) bool {
	for _, a := range v.Attesters {
		if a == s {
			return true
		}
	}
	return false
}

type Cond struct {
	Name string
	OK   bool
}

type Pred struct {
	Exp   Expect
	Why   string
	Conds []Cond // named acceptance conditions, in statement order
	Next  View   // the view if the transaction succeeds
	Deps  []DepCall
	// outbound message expected on success (nil: none)
	Sent     *refcodec.Message
	SentBurn *refcodec.BurnMessage // decoded body of Sent when it is a burn message
	Nonce    *uint64               // nonce expected in the response
	// inbound
	In     *refcodec.Message
	InBurn *refcodec.BurnMessage
	Mint   *DepCall
	Kind   string
}

func (p *Pred) cond(name string, ok bool) bool {
	p.Conds = append(p.Conds, Cond{name, ok})
	return ok
}

func (p *Pred) allOK() bool {
	for _, c := range p.Conds {
		if !c.OK {
			return false
		}
	}
	return true
}

func (p *Pred) failed() []string {
	var out []string
	for _, c := range p.Conds {
		if !c.OK {
			out = append(out, c.Name)
		}
	}
	return out
}

func (p *Pred) CondKey() string {
	var sb strings.Builder
	for _, c := range p.Conds {
		if c.OK {
			sb.WriteByte('1')
		} else {
			sb.WriteByte('0')
		}
	}
	return sb.String()
}

func nonzero32(b []byte) bool { return len(b) == 32 && !bytes.Equal(b, Zero32) }

func bech32Of(b20 []byte) string {
	s, err := sdk.Bech32ifyAddressBytes(Bech32Prefix, b20)
	if err != nil {
		return ""
	}
	return s
}

// ---------------------------------------------------------------------------
// Ledger dry-runs on the real dependencies

func (w *World) mintingDenom() string {
	return w.FTF.GetMintingDenom(w.ctx).Denom
}

// dryPayAndBurn: would the transfer depositor->module and the burn in the module's name succeed?
func (w *World) dryPayAndBurn(from sdk.AccAddress, denom string, amount math.Int) (pay, burn bool) {
	if sdk.ValidateDenom(denom) != nil || amount.IsNil() || !amount.IsPositive() {
		return false, false
	}
	coin := sdk.NewCoin(denom, amount)
	w.DryRun(func(ctx sdk.Context) {
		if err := w.BK.SendCoinsFromAccountToModule(ctx, from, cctptypes.ModuleName, sdk.NewCoins(coin)); err != nil {
			return
		}
		pay = true
		if _, err := w.FTF.Burn(ctx, &ftftypes.MsgBurn{From: cctptypes.ModuleAddress.String(), Amount: coin}); err == nil {
			burn = true
		}
	})
	return
}

func (w *World) dryMint(to string, denom string, amount *big.Int) (ok bool) {
	if sdk.ValidateDenom(denom) != nil || amount.Sign() <= 0 {
		// a zero-amount or invalid-denom mint is judged by the real dependency too, but NewCoin would panic on invalid denoms
		if sdk.ValidateDenom(denom) != nil {
			return false
		}
	}
	defer func() {
		if r := recover(); r != nil {
			ok = false
		}
	}()
	w.DryRun(func(ctx sdk.Context) {
		_, err := w.FTF.Mint(ctx, &ftftypes.MsgMint{From: cctptypes.ModuleAddress.String(), Address: to,
			Amount: sdk.Coin{Denom: denom, Amount: math.NewIntFromBigInt(amount)}})
		ok = err == nil
	})
	return
}

// ---------------------------------------------------------------------------
// Predict

func Predict(w *World, v View, a Action) Pred {
	msg, err := a.Decode()
	if err != nil {
		return Pred{Exp: MustFail, Why: "undecodable", Next: v}
	}
	return PredictMsg(w, v, msg)
}

func PredictMsg(w *World, v View, msg proto.Message) Pred {
	p := Pred{Exp: Either, Next: v.Clone(), Kind: handlerName(proto.MessageName(msg))}
	admin := func(holder, from string) bool { return p.cond("submitter holds the role", holder == from) }
	decide := func() {
		if p.allOK() {
			p.Exp = MustSucceed
		} else {
			p.Exp = MustFail
			p.Why = strings.Join(p.failed(), "; ")
		}
	}
	switch x := msg.(type) {
	// ---- roles
	case *cctptypes.MsgUpdateOwner, *cctptypes.MsgAcceptOwner, *cctptypes.MsgUpdateAttesterManager, *cctptypes.MsgUpdatePauser, *cctptypes.MsgUpdateTokenController:
		exp, next, _ := roleStep(rolesOfView(v), msg)
		p.Exp = exp
		p.Next.Owner, p.Next.AttMgr, p.Next.Pauser, p.Next.TokenCtl, p.Next.Pending, p.Next.HasPending = next.Owner, next.AttMgr, next.Pauser, next.TokenCtl, next.Pending, next.HasPending

	// ---- flags
	case *cctptypes.MsgPauseBurningAndMinting:
		admin(v.Pauser, x.From)
		p.Next.BurnPaused = true
		decide()
	case *cctptypes.MsgUnpauseBurningAndMinting:
		admin(v.Pauser, x.From)
		p.Next.BurnPaused = false
		decide()
	case *cctptypes.MsgPauseSendingAndReceivingMessages:
		admin(v.Pauser, x.From)
		p.Next.SendPaused = true
		decide()
	case *cctptypes.MsgUnpauseSendingAndReceivingMessages:
		admin(v.Pauser, x.From)
		p.Next.SendPaused = false
		decide()

	// ---- owner-controlled parameters
	case *cctptypes.MsgUpdateMaxMessageBodySize:
		admin(v.Owner, x.From)
		p.Next.MaxBody = x.MessageSize
		decide()
	case *cctptypes.MsgAddRemoteTokenMessenger:
		admin(v.Owner, x.From)
		_, dup := v.Messengers[x.DomainId]
		p.cond("no messenger registered for the domain yet", !dup)
		p.Next.Messengers[x.DomainId] = fmt.Sprintf("%x", x.Address)
		decide()
		if p.Exp == MustSucceed && len(x.Address) != 32 {
			p.Exp = Either
		}
	case *cctptypes.MsgRemoveRemoteTokenMessenger:
		admin(v.Owner, x.From)
		_, have := v.Messengers[x.DomainId]
		p.cond("a messenger is registered for the domain", have)
		delete(p.Next.Messengers, x.DomainId)
		decide()

	// ---- attesters
	case *cctptypes.MsgEnableAttester:
		admin(v.AttMgr, x.From)
		p.cond("attester not enabled yet", !v.hasAttester(x.Attester))
		p.Next.Attesters = append(p.Next.Attesters, x.Attester)
		decide()
		if p.Exp == MustSucceed && len(refFromHex(x.Attester)) == 0 {
			p.Exp = Either // empty / non-hex key: the statements are silent
		}
	case *cctptypes.MsgDisableAttester:
		admin(v.AttMgr, x.From)
		p.cond("attester is enabled", v.hasAttester(x.Attester))
		p.cond("not the last attester", len(v.Attesters) > 1)
		p.cond("leaves at least threshold attesters", uint32(len(v.Attesters))-1 >= v.Threshold || !v.hasAttester(x.Attester))
		var rest []string
		for _, s := range v.Attesters {
			if s != x.Attester {
				rest = append(rest, s)
			}
		}
		p.Next.Attesters = rest
		decide()
	case *cctptypes.MsgUpdateSignatureThreshold:
		admin(v.AttMgr, x.From)
		p.cond("threshold >= 1", x.Amount >= 1)
		p.cond("threshold <= number of attesters", x.Amount <= uint32(len(v.Attesters)))
		p.Next.Threshold = x.Amount
		decide()
		if p.Exp == MustSucceed && x.Amount == v.Threshold {
			p.Exp = Either
		}

	// ---- token controller
	case *cctptypes.MsgLinkTokenPair:
		admin(v.TokenCtl, x.From)
		_, dup := v.Pairs[pairKey(x.RemoteDomain, x.RemoteToken)]
		p.cond("pair not linked yet", !dup)
		p.Next.Pairs[pairKey(x.RemoteDomain, x.RemoteToken)] = strings.ToLower(x.LocalToken)
		decide()
		if p.Exp == MustSucceed && len(x.RemoteToken) != 32 {
			p.Exp = Either
		}
	case *cctptypes.MsgUnlinkTokenPair:
		admin(v.TokenCtl, x.From)
		_, have := v.Pairs[pairKey(x.RemoteDomain, x.RemoteToken)]
		p.cond("pair is linked", have)
		delete(p.Next.Pairs, pairKey(x.RemoteDomain, x.RemoteToken))
		decide()
		if p.Exp == MustSucceed && len(x.RemoteToken) != 32 {
			p.Exp = Either
		}
	case *cctptypes.MsgSetMaxBurnAmountPerMessage:
		admin(v.TokenCtl, x.From)
		amt := "0"
		if !x.Amount.IsNil() {
			amt = x.Amount.String()
		}
		p.Next.Limits[strings.ToLower(x.LocalToken)] = amt
		decide()
		if p.Exp == MustSucceed && (x.Amount.IsNil() || x.Amount.IsNegative()) {
			p.Exp = Either
		}

	// ---- user flows
	case *cctptypes.MsgSendMessage:
		predictSend(&p, v, x.From, x.DestinationDomain, x.Recipient, x.MessageBody, nil, false)
	case *cctptypes.MsgSendMessageWithCaller:
		predictSend(&p, v, x.From, x.DestinationDomain, x.Recipient, x.MessageBody, x.DestinationCaller, true)
	case *cctptypes.MsgDepositForBurn:
		predictDeposit(&p, w, v, x.From, x.Amount, x.DestinationDomain, x.MintRecipient, x.BurnToken, nil, false)
	case *cctptypes.MsgDepositForBurnWithCaller:
		predictDeposit(&p, w, v, x.From, x.Amount, x.DestinationDomain, x.MintRecipient, x.BurnToken, x.DestinationCaller, true)
	case *cctptypes.MsgReceiveMessage:
		predictReceive(&p, w, v, x)
	case *cctptypes.MsgReplaceMessage:
		predictReplaceMessage(&p, v, x)
	case *cctptypes.MsgReplaceDepositForBurn:
		predictReplaceDeposit(&p, v, x)
	}
	return p
}

func predictSend(p *Pred, v View, from string, dst uint32, recipient, body, caller []byte, withCaller bool) {
	fromAddr, err := sdk.AccAddressFromBech32(from)
	if err != nil {
		p.Exp, p.Why = Either, "non-canonical submitter"
		return
	}
	if v.SendPaused {
		p.Exp, p.Why = MustFail, "sending paused"
		return
	}
	canonical := nonzero32(recipient) && uint64(len(body)) <= v.MaxBody && (!withCaller || nonzero32(caller))
	if canonical {
		p.Exp = MustSucceed
	} else {
		p.Exp = Either
	}
	c := caller
	if !withCaller {
		c = Zero32
	}
	p.Sent = &refcodec.Message{Version: 0, SourceDomain: Noble, DestinationDomain: dst, Nonce: v.NextNonce,
		Sender: pad32(fromAddr), Recipient: recipient, DestinationCaller: c, Body: append([]byte{}, body...)}
	n := v.NextNonce
	p.Nonce = &n
	p.Next.NextNonce = v.NextNonce + 1
}

func predictDeposit(p *Pred, w *World, v View, from string, amount math.Int, dst uint32, mintRecipient []byte, burnToken string, caller []byte, withCaller bool) {
	fromAddr, err := sdk.AccAddressFromBech32(from)
	if err != nil {
		p.Exp, p.Why = Either, "non-canonical submitter"
		return
	}
	denom := w.mintingDenom()
	positive := !amount.IsNil() && amount.IsPositive()
	p.cond("amount strictly positive", positive)
	within := true
	if lim, ok := v.Limits[strings.ToLower(denom)]; ok && positive {
		l := mustInt(lim)
		within = amount.LTE(l)
	}
	p.cond("amount at most the per-message limit", within)
	p.cond("burn token is the minting denom", burnToken == denom)
	p.cond("mint recipient non-zero 32 bytes", nonzero32(mintRecipient))
	mhex, have := v.Messengers[dst]
	messenger := refFromHex(mhex)
	p.cond("non-zero token messenger registered for the destination", have && !bytes.Equal(messenger, make([]byte, len(messenger))) && len(messenger) > 0)
	p.cond("burning and minting not paused", !v.BurnPaused)
	p.cond("sending and receiving not paused", !v.SendPaused)
	p.cond("132-byte body fits the maximum body size", 132 <= v.MaxBody)
	pay, burn := false, false
	if positive && burnToken == denom {
		pay, burn = w.dryPayAndBurn(fromAddr, denom, amount)
	}
	p.cond("depositor can pay", pay)
	p.cond("burn succeeds", burn)
	if withCaller {
		p.cond("destination caller non-zero 32 bytes", nonzero32(caller))
	}
	if p.allOK() {
		p.Exp = MustSucceed
		if len(messenger) != 32 {
			p.Exp = Either // a wrong-length messenger can only come from genesis; the statement is silent
		}
	} else {
		p.Exp = MustFail
		p.Why = strings.Join(p.failed(), "; ")
		return
	}
	amt := amount.String()
	p.Deps = []DepCall{
		{Kind: "transfer", From: from, To: cctptypes.ModuleName, Denom: denom, Amount: amt},
		{Kind: "burn", From: ModuleAcct.Str, Denom: denom, Amount: amt},
	}
	c := caller
	if !withCaller {
		c = Zero32
	}
	p.SentBurn = &refcodec.BurnMessage{Version: 0, BurnToken: refKeccak([]byte(strings.ToLower(denom))), MintRecipient: mintRecipient,
		Amount: amount.BigInt(), MessageSender: pad32(fromAddr)}
	body, _ := refcodec.EncodeBurn(p.SentBurn)
	p.Sent = &refcodec.Message{Version: 0, SourceDomain: Noble, DestinationDomain: dst, Nonce: v.NextNonce,
		Sender: PaddedModule, Recipient: messenger, DestinationCaller: c, Body: body}
	n := v.NextNonce
	p.Nonce = &n
	p.Next.NextNonce = v.NextNonce + 1
}

func predictReceive(p *Pred, w *World, v View, x *cctptypes.MsgReceiveMessage) {
	p.cond("receiving not paused", !v.SendPaused)
	attOK, _ := RefVerify(x.Message, x.Attestation, v.Attesters, v.Threshold)
	p.cond("attestation valid", attOK)
	m, err := refcodec.DecodeMessage(x.Message)
	if !p.cond("full 116-byte header", err == nil) {
		p.Exp, p.Why = MustFail, strings.Join(p.failed(), "; ")
		return
	}
	p.In = m
	p.cond("destination domain is Noble (4)", m.DestinationDomain == Noble)
	p.cond("version 0", m.Version == 0)
	p.cond("nonce unused", !v.Used[nonceKey(m.SourceDomain, m.Nonce)])
	callerZero := bytes.Equal(m.DestinationCaller, Zero32)
	callerIsSubmitter := bech32Of(m.DestinationCaller[12:]) == x.From
	ambiguousCaller := !callerZero && callerIsSubmitter && !bytes.Equal(m.DestinationCaller[:12], make([]byte, 12))
	p.cond("destination caller zero or the submitter", callerZero || callerIsSubmitter)
	toModule := bytes.Equal(m.Recipient, PaddedModule)
	var mint *DepCall
	if toModule {
		p.cond("minting not paused", !v.BurnPaused)
		b, berr := refcodec.DecodeBurn(m.Body)
		if p.cond("body is a 132-byte burn message", berr == nil) {
			p.InBurn = b
			p.cond("burn message version 0", b.Version == 0)
			mh, have := v.Messengers[m.SourceDomain]
			p.cond("sender is the registered token messenger", have && mh == fmt.Sprintf("%x", m.Sender))
			local, linked := v.Pairs[pairKey(m.SourceDomain, b.BurnToken)]
			p.cond("local token linked to (source domain, burn token)", linked)
			if linked {
				to := bech32Of(b.MintRecipient[12:])
				denom := strings.ToLower(local)
				mint = &DepCall{Kind: "mint", From: ModuleAcct.Str, To: to, Denom: denom, Amount: b.Amount.String()}
				ok := false
				if p.allOK() { // only meaningful (and only needed) when everything else holds
					ok = w.dryMint(to, denom, b.Amount)
					p.cond("mint succeeds", ok)
				}
			}
		}
	}
	if p.allOK() {
		p.Exp = MustSucceed
		if ambiguousCaller {
			p.Exp = Either
		}
	} else {
		p.Exp, p.Why = MustFail, strings.Join(p.failed(), "; ")
		return
	}
	p.Next.Used[nonceKey(m.SourceDomain, m.Nonce)] = true
	if mint != nil {
		p.Mint = mint
		p.Deps = []DepCall{*mint}
	}
}

func predictReplaceMessage(p *Pred, v View, x *cctptypes.MsgReplaceMessage) {
	fromAddr, err := sdk.AccAddressFromBech32(x.From)
	if err != nil {
		p.Exp = Either
		return
	}
	p.cond("sending not paused", !v.SendPaused)
	attOK, _ := RefVerify(x.OriginalMessage, x.OriginalAttestation, v.Attesters, v.Threshold)
	p.cond("original validly attested under the current attester set", attOK)
	m, derr := refcodec.DecodeMessage(x.OriginalMessage)
	if !p.cond("original has a full header", derr == nil) {
		p.Exp, p.Why = MustFail, strings.Join(p.failed(), "; ")
		return
	}
	p.In = m
	p.cond("original originated on Noble", m.SourceDomain == Noble)
	p.cond("original sender is the submitter", bytes.Equal(m.Sender, pad32(fromAddr)))
	if !p.allOK() {
		p.Exp, p.Why = MustFail, strings.Join(p.failed(), "; ")
		return
	}
	canonical := len(x.NewDestinationCaller) == 32 && uint64(len(x.NewMessageBody)) <= v.MaxBody && nonzero32(m.Recipient)
	if canonical {
		p.Exp = MustSucceed
	} else {
		p.Exp = Either
	}
	p.Sent = &refcodec.Message{Version: 0, SourceDomain: Noble, DestinationDomain: m.DestinationDomain, Nonce: m.Nonce,
		Sender: m.Sender, Recipient: m.Recipient, DestinationCaller: x.NewDestinationCaller, Body: append([]byte{}, x.NewMessageBody...)}
}

func predictReplaceDeposit(p *Pred, v View, x *cctptypes.MsgReplaceDepositForBurn) {
	fromAddr, err := sdk.AccAddressFromBech32(x.From)
	if err != nil {
		p.Exp = Either
		return
	}
	p.cond("burning and minting not paused", !v.BurnPaused)
	p.cond("sending not paused", !v.SendPaused)
	attOK, _ := RefVerify(x.OriginalMessage, x.OriginalAttestation, v.Attesters, v.Threshold)
	p.cond("original validly attested under the current attester set", attOK)
	m, derr := refcodec.DecodeMessage(x.OriginalMessage)
	if !p.cond("original has a full header", derr == nil) {
		p.Exp, p.Why = MustFail, strings.Join(p.failed(), "; ")
		return
	}
	p.In = m
	b, berr := refcodec.DecodeBurn(m.Body)
	if !p.cond("original body is a 132-byte burn message", berr == nil) {
		p.Exp, p.Why = MustFail, strings.Join(p.failed(), "; ")
		return
	}
	p.InBurn = b
	p.cond("original originated on Noble", m.SourceDomain == Noble)
	p.cond("original sent by the module", bytes.Equal(m.Sender, PaddedModule))
	p.cond("depositor is the submitter", bytes.Equal(b.MessageSender, pad32(fromAddr)))
	p.cond("new mint recipient non-zero", !bytes.Equal(x.NewMintRecipient, Zero32))
	if !p.allOK() {
		p.Exp, p.Why = MustFail, strings.Join(p.failed(), "; ")
		return
	}
	canonical := nonzero32(x.NewMintRecipient) && len(x.NewDestinationCaller) == 32 && 132 <= v.MaxBody && nonzero32(m.Recipient)
	if canonical {
		p.Exp = MustSucceed
	} else {
		p.Exp = Either
	}
	p.SentBurn = &refcodec.BurnMessage{Version: b.Version, BurnToken: b.BurnToken, MintRecipient: x.NewMintRecipient, Amount: b.Amount, MessageSender: b.MessageSender}
	body, eerr := refcodec.EncodeBurn(p.SentBurn)
	if eerr != nil {
		body = nil
	}
	p.Sent = &refcodec.Message{Version: 0, SourceDomain: Noble, DestinationDomain: m.DestinationDomain, Nonce: m.Nonce,
		Sender: m.Sender, Recipient: m.Recipient, DestinationCaller: x.NewDestinationCaller, Body: body}
}

// ---------------------------------------------------------------------------
// Generic comparisons used by several checks

// ExpMismatch reports whether the outcome contradicts a MUST expectation.
func ExpMismatch(p Pred, o Outcome) bool {
	return (p.Exp == MustFail && o.OK) || (p.Exp == MustSucceed && !o.OK)
}

func depsEqual(a, b []DepCall) bool {
	if len(a) != len(b) {
		return false
	}
	for i := range a {
		if a[i].Kind != b[i].Kind || a[i].From != b[i].From || a[i].To != b[i].To || a[i].Denom != b[i].Denom || a[i].Amount != b[i].Amount {
			return false
		}
	}
	return true
}

func depsStr(d []DepCall) string {
	var parts []string
	for _, c := range d {
		parts = append(parts, fmt.Sprintf("%s(from=%s,to=%s,%s %s,err=%q)", c.Kind, acctName(c.From), acctName(c.To), c.Amount, c.Denom, c.Err))
	}
	return "[" + strings.Join(parts, " ") + "]"
}

func refMsgEqual(a, b *refcodec.Message) bool {
	return a.Version == b.Version && a.SourceDomain == b.SourceDomain && a.DestinationDomain == b.DestinationDomain && a.Nonce == b.Nonce &&
		bytes.Equal(a.Sender, b.Sender) && bytes.Equal(a.Recipient, b.Recipient) && bytes.Equal(a.DestinationCaller, b.DestinationCaller) && bytes.Equal(a.Body, b.Body)
}

func refMsgStr(m *refcodec.Message) string {
	if m == nil {
		return "<none>"
	}
	return fmt.Sprintf("{v=%d src=%d dst=%d nonce=%d sender=%x recipient=%x caller=%x body(%d)=%x}", m.Version, m.SourceDomain, m.DestinationDomain, m.Nonce,
		m.Sender, m.Recipient, m.DestinationCaller, len(m.Body), m.Body)
}
