package main

// C12 -- pausing stops exactly the flows it names.
// BFS over the four pause actions by every account from a state that already
// holds an attested user message and an attested deposit; in every reached
// state the 8 user-facing flows and all administrative transactions are
// probed against the matrix stated in the property.

import (
	"fmt"
	"github.com/ethereum/go-ethereum/crypto"
	"math/big"

	"cosmossdk.io/math"

	cctptypes "github.com/circlefin/noble-cctp/x/cctp/types"
)

type c12Model struct{ Burn, Send bool }

func (m c12Model) key() string { return fmt.Sprintf("burnPaused=%v sendPaused=%v", m.Burn, m.Send) }

func init() {
	register(&Check{
		ID:    "C12",
		Level: "model_checking",
		Rule: "BFS to closure over pause/unpause of both flags by every account (pauser, other role holders, users), from several history points; " +
			"in every reached state the 8 user flows (several parameterisations in thorough) and the 18 privileged transactions are probed against the flag x flow matrix; " +
			"distinct_nontrivial counts distinct (flag state, history point, flow/transaction, submitter, outcome) tuples",
		Assumptions: []string{"flows use otherwise valid inputs, so a flow not named by a set flag MUST succeed"},
		Jobs:        c12Jobs,
		Vacuity: func(m *Run) []string {
			if m.Classes["ok"] == 0 || m.Classes["error"] == 0 {
				return []string{"C12 vacuous"}
			}
			return nil
		},
	})
}

func c12Jobs(tier string) []Job {
	var jobs []Job
	starts := []string{"FF", "TF", "FT", "TT"} // genesis flag values (burn, send)
	for _, st := range starts {
		for _, pre := range []string{"fresh", "after-traffic", "pauser-rotated"} {
			if tier == "quick" && pre != "fresh" && st != "FF" {
				continue
			}
			st, pre := st, pre
			jobs = append(jobs, Job{Name: "pause-bfs-genesis" + st + "-" + pre, Run: func(r *Run) { c12Run(r, st, pre) }})
		}
	}
	return jobs
}

type c12Flow struct {
	Name      string
	NeedsBurn bool // blocked by the burning/minting flag as well
	Make      func() Action
}

func c12Run(r *Run, start, preamble string) {
	g := AdminGenesis()
	// the preamble needs both flags clear; genesis flags are applied by real pause transactions below
	lg := BaseLedger()
	scn := Scenario{Name: "c12", Ledger: lg, Genesis: g}

	var origSend, origDep, attSend, attDep []byte
	signers := Keys[0:2]
	everyone := []Account{Pauser, Owner, AttMgr, TokenCtl, UserA, Outsider}
	pauser := Pauser // the current holder of the pauser role at this history point
	if preamble == "pauser-rotated" {
		pauser = UserA
	}

	flows := func() []c12Flow {
		in1 := InboundPlain(DomEth, 100, []byte("hi"), nil)
		in2 := InboundBurn(DomEth, 101, big.NewInt(42), pad32(UserB.Addr), nil)
		burnLike := RefBurn(0, crypto.Keccak256([]byte("uusdc")), pad32(UserB.Addr), big.NewInt(5), pad32(UserA.Addr))
		in5 := InboundPlain(DomEth, 103, burnLike, nil)
		fl := []c12Flow{
			{"send", false, func() Action { return MkSend(UserA.Str, DomEth, distinct32(0x21), []byte("body")) }},
			{"sendWithCaller", false, func() Action {
				return MkSendWithCaller(UserA.Str, DomAvax, distinct32(0x21), []byte("body"), distinct32(0x22))
			}},
			{"replaceMessage", false, func() Action {
				return MkReplaceMessage(UserA.Str, origSend, attSend, []byte("new body"), distinct32(0x23), "own send")
			}},
			{"receive-plain", false, func() Action { return MkReceive(UserB.Str, in1, Attest(in1, signers), "plain(0,100)") }},
			// plain messages whose body happens to be shaped like a burn message (132 bytes, well-formed): still not a burn or mint
			{"send-burnlike-body", false, func() Action { return MkSend(UserA.Str, DomEth, distinct32(0x21), burnLike) }},
			{"sendWithCaller-burnlike-body", false, func() Action {
				return MkSendWithCaller(UserA.Str, DomAvax, distinct32(0x21), burnLike, distinct32(0x22))
			}},
			{"replaceMessage-burnlike-body", false, func() Action {
				return MkReplaceMessage(UserA.Str, origSend, attSend, burnLike, distinct32(0x23), "own send, 132-byte body")
			}},
			{"receive-plain-burnlike-body", false, func() Action { return MkReceive(UserB.Str, in5, Attest(in5, signers), "plain(0,103) 132-byte body") }},
			{"deposit", true, func() Action { return MkDeposit(UserA.Str, math.NewInt(7), DomEth, distinct32(0x24), "uusdc") }},
			{"depositWithCaller", true, func() Action {
				return MkDepositWithCaller(UserA.Str, math.NewInt(7), DomAvax, distinct32(0x24), "uusdc", distinct32(0x25))
			}},
			{"replaceDeposit", true, func() Action {
				return MkReplaceDeposit(UserA.Str, origDep, attDep, distinct32(0x26), distinct32(0x27), "own deposit")
			}},
			{"receive-mint", true, func() Action { return MkReceive(UserB.Str, in2, Attest(in2, signers), "burn(0,101,42)") }},
		}
		if r.Tier == "thorough" {
			in3 := InboundPlain(DomAvax, 7, make([]byte, 300), pad32(UserB.Addr))
			in4 := InboundBurn(DomEth, 102, bigPow2(70), pad32(Outsider.Addr), pad32(UserB.Addr))
			fl = append(fl,
				c12Flow{"send-empty-body", false, func() Action { return MkSend(UserB.Str, 9, distinct32(0x31), nil) }},
				c12Flow{"receive-plain-with-caller", false, func() Action { return MkReceive(UserB.Str, in3, Attest(in3, signers), "plain(1,7) caller=B") }},
				c12Flow{"deposit-B", true, func() Action { return MkDeposit(UserB.Str, math.NewInt(500), DomAvax, distinct32(0x32), "uusdc") }},
				c12Flow{"receive-mint-with-caller", true, func() Action { return MkReceive(UserB.Str, in4, Attest(in4, signers), "burn(0,102,2^70) caller=B") }},
				c12Flow{"replaceMessage-same-body", false, func() Action {
					return MkReplaceMessage(UserA.Str, origSend, attSend, []byte("body"), Zero32, "own send, zero caller")
				}},
			)
		}
		return fl
	}

	var flowList []c12Flow
	flowOK := map[string]bool{}  // does the flow work at this history point with nothing paused?
	adminOK := map[string]bool{} // same for the administrative transactions
	bfs := &BFS{
		SeqDepth: map[string]int{"quick": map[bool]int{true: 2, false: 1}[start == "FF"], "thorough": 3}[r.Tier],
		Scn:      scn, MaxDepth: 32, ValidatePaths: true,
		Init: func(r *Run, w *World, root *Node) {
			do := func(a Action) Outcome {
				o := w.Apply(a)
				root.Path = append(root.Path, a)
				if !o.OK {
					panic(preambleFailed{fmt.Sprintf("%s: %s %s", a.Desc, o.Err, o.PanicVal)})
				}
				return o
			}
			o1 := do(MkSend(UserA.Str, DomEth, distinct32(0x21), []byte("body")))
			o2 := do(MkDeposit(UserA.Str, math.NewInt(11), DomEth, distinct32(0x24), "uusdc"))
			if ms := MessageSentOf(o1.Events); len(ms) == 1 {
				origSend = ms[0]
			}
			if ms := MessageSentOf(o2.Events); len(ms) == 1 {
				origDep = ms[0]
			}
			if origSend == nil || origDep == nil {
				panic(preambleFailed{"preamble produced no MessageSent"})
			}
			attSend, attDep = Attest(origSend, signers), Attest(origDep, signers)
			if preamble == "pauser-rotated" {
				do(Act("updatePauser(A4) by A0", &cctptypes.MsgUpdatePauser{From: Owner.Str, NewPauser: UserA.Str}))
			}
			if preamble == "after-traffic" {
				in := InboundBurn(DomEth, 5, big.NewInt(9), pad32(UserB.Addr), nil)
				do(MkReceive(UserB.Str, in, Attest(in, signers), "burn(0,5,9)"))
				do(MkSendWithCaller(UserB.Str, DomAvax, distinct32(0x28), []byte("x"), distinct32(0x29)))
				do(AdminTxs[4].Make(Owner.Str)) // max body size 9000
				do(Act("setMaxBurnAmountPerMessage(uusdc,1000) by A3", &cctptypes.MsgSetMaxBurnAmountPerMessage{From: TokenCtl.Str, LocalToken: "uusdc", Amount: math.NewInt(1000)}))
			}
			// baseline with both flags clear: pausing can only be blamed for what works without it
			flowList = flows()
			unpaused := w.Dump()
			for _, f := range flowList {
				w.Load(unpaused)
				flowOK[f.Name] = w.Apply(f.Make()).OK
			}
			for _, tx := range AdminTxs {
				w.Load(unpaused)
				holder := map[Role]string{RoleOwner: Owner.Str, RoleAttMgr: AttMgr.Str, RolePauser: pauser.Str, RoleTokenCtl: TokenCtl.Str}[tx.Role]
				if tx.Role == RolePending {
					w.Apply(AdminTxs[0].Make(Owner.Str))
					holder = Outsider.Str
				}
				adminOK[tx.Name] = w.Apply(tx.Make(holder)).OK
			}
			w.Load(unpaused)
			m := c12Model{}
			if start[0] == 'T' {
				do(Act("pauseBurningAndMinting by "+pauser.Name, &cctptypes.MsgPauseBurningAndMinting{From: pauser.Str}))
				m.Burn = true
			}
			if start[1] == 'T' {
				do(Act("pauseSendingAndReceiving by "+pauser.Name, &cctptypes.MsgPauseSendingAndReceivingMessages{From: pauser.Str}))
				m.Send = true
			}
			root.Model, root.MKey = m, m.key()
		},
		Actions: func(n *Node, w *World) []Action {
			var as []Action
			for _, s := range everyone {
				as = append(as,
					Act("pauseBurningAndMinting by "+s.Name, &cctptypes.MsgPauseBurningAndMinting{From: s.Str}),
					Act("unpauseBurningAndMinting by "+s.Name, &cctptypes.MsgUnpauseBurningAndMinting{From: s.Str}),
					Act("pauseSendingAndReceiving by "+s.Name, &cctptypes.MsgPauseSendingAndReceivingMessages{From: s.Str}),
					Act("unpauseSendingAndReceiving by "+s.Name, &cctptypes.MsgUnpauseSendingAndReceivingMessages{From: s.Str}),
				)
			}
			if w.ctx.BlockHeight() == 1 { // a flag changes only by the pauser's action -- not by the passage of blocks or time
				as = append(as, AdvanceAction())
			}
			return as
		},
		Step: func(r *Run, pre *Node, a Action, o Outcome, w *World, post *Node) bool {
			m := pre.Model.(c12Model)
			if a.Type == AdvanceType {
				return true
			}
			next, from := c12Apply(m, a)
			exp := MustFail
			if from == pauser.Str {
				exp = MustSucceed
			}
			r.Distinct(fmt.Sprintf("%s|%s|%s|%s", start+preamble, m.key(), a.Desc, o.Class()))
			if (exp == MustFail && o.OK) || (exp == MustSucceed && !o.OK) || o.Panicked {
				rp := scn.Replay("actions", post.Path)
				rp.Expected, rp.Observed = exp.String(), o.Class()+" "+o.Err+o.PanicVal
				r.Violate(fmt.Sprintf("C12 %s expected %s got %s", handlerName(a.Type), exp, o.Class()),
					fmt.Sprintf("flags %s: %s -> %s %s", m.key(), a.Desc, o.Class(), o.Err), rp)
			}
			if !o.OK {
				next = m
			}
			post.Model, post.MKey = next, next.key()
			return true
		},
		State: func(r *Run, n *Node, w *World) {
			m := n.Model.(c12Model)
			c12CheckFlags(r, scn, n.Path, w, m, "after "+fmt.Sprint(descs(n.Path)))
			// probes: flows
			for _, f := range flowList {
				a := f.Make()
				w.Load(n.Dump)
				o := w.Apply(a)
				r.Transitions++
				r.Class(o.Class())
				blocked := m.Send || (f.NeedsBurn && m.Burn)
				r.Distinct(fmt.Sprintf("%s|%s|flow %s|%s", start+preamble, m.key(), f.Name, o.Class()))
				path := append(append([]Action{}, n.Path...), a)
				switch {
				case o.Panicked:
					r.Violate("C12 panic in flow "+f.Name, o.PanicVal, scn.Replay("actions", path))
				case blocked && o.OK:
					rp := scn.Replay("actions", path)
					rp.Expected, rp.Observed = "blocked ("+m.key()+")", "ok"
					r.Violate("C12 paused flow went through: "+f.Name, fmt.Sprintf("flags %s: %s succeeded", m.key(), a.Desc), rp)
				case !blocked && !o.OK && !flowOK[f.Name]:
					r.Truncate("C12: flow " + f.Name + " fails even with nothing paused at this history point; pausing cannot be judged for it")
				case !blocked && !o.OK:
					rp := scn.Replay("actions", path)
					rp.Expected, rp.Observed = "succeeds ("+m.key()+")", o.Err
					r.Violate("C12 flow blocked by a flag that does not name it: "+f.Name, fmt.Sprintf("flags %s: %s failed: %s", m.key(), a.Desc, o.Err), rp)
				}
				c12CheckFlags(r, scn, path, w, m, "after flow "+f.Name)
				if n.Depth <= 1 {
					r.Sample("flow", map[string]any{"flags": m.key(), "flow": a.Desc, "blocked_expected": blocked, "observed": o.Class()})
				}
			}
			// probes: administrative transactions stay available, and only pause actions move the flags
			for _, tx := range AdminTxs {
				holder := map[Role]string{RoleOwner: Owner.Str, RoleAttMgr: AttMgr.Str, RolePauser: pauser.Str, RoleTokenCtl: TokenCtl.Str}[tx.Role]
				pathPre := n.Path
				w.Load(n.Dump)
				if tx.Role == RolePending {
					pa := AdminTxs[0].Make(Owner.Str) // updateOwner(Outsider)
					w.Apply(pa)
					pathPre = append(append([]Action{}, n.Path...), pa)
					holder = Outsider.Str
				}
				a := tx.Make(holder)
				o := w.Apply(a)
				r.Transitions++
				r.Class(o.Class())
				path := append(append([]Action{}, pathPre...), a)
				r.Distinct(fmt.Sprintf("%s|%s|admin %s|%s", start+preamble, m.key(), tx.Name, o.Class()))
				if !o.OK && !adminOK[tx.Name] {
					r.Truncate("C12: administrative transaction " + tx.Name + " fails even with nothing paused; availability while paused cannot be judged for it")
				} else if !o.OK {
					rp := scn.Replay("actions", path)
					rp.Expected, rp.Observed = "administrative action available while paused", o.Err+o.PanicVal
					r.Violate("C12 administrative action unavailable: "+tx.Name, fmt.Sprintf("flags %s: %s failed: %s", m.key(), a.Desc, o.Err), rp)
				}
				want, _ := c12Apply(m, a)
				c12CheckFlags(r, scn, path, w, want, "after admin "+tx.Name)
			}
		},
	}
	bfs.Explore(r)
}

func c12Apply(m c12Model, a Action) (c12Model, string) {
	msg, _ := a.Decode()
	switch x := msg.(type) {
	case *cctptypes.MsgPauseBurningAndMinting:
		m.Burn = true
		return m, x.From
	case *cctptypes.MsgUnpauseBurningAndMinting:
		m.Burn = false
		return m, x.From
	case *cctptypes.MsgPauseSendingAndReceivingMessages:
		m.Send = true
		return m, x.From
	case *cctptypes.MsgUnpauseSendingAndReceivingMessages:
		m.Send = false
		return m, x.From
	}
	return m, ""
}

// c12CheckFlags compares both flag queries and the export with the model.
func c12CheckFlags(r *Run, scn Scenario, path []Action, w *World, m c12Model, when string) {
	cctx, _ := w.ctx.CacheContext()
	q1, e1 := w.K.BurningAndMintingPaused(cctx, &cctptypes.QueryGetBurningAndMintingPausedRequest{})
	q2, e2 := w.K.SendingAndReceivingMessagesPaused(cctx, &cctptypes.QueryGetSendingAndReceivingMessagesPausedRequest{})
	if e1 != nil || e2 != nil {
		r.Violate("C12 flag query failed", fmt.Sprintf("%s: %v %v", when, e1, e2), scn.Replay("actions", path))
		return
	}
	v := ViewOf(w)
	if q1.Paused.Paused != m.Burn || q2.Paused.Paused != m.Send || v.BurnPaused != m.Burn || v.SendPaused != m.Send {
		rp := scn.Replay("actions", path)
		rp.Expected = m.key()
		rp.Observed = fmt.Sprintf("query burnPaused=%v sendPaused=%v export burnPaused=%v sendPaused=%v", q1.Paused.Paused, q2.Paused.Paused, v.BurnPaused, v.SendPaused)
		r.Violate("C12 flag changed other than by the pauser's action on it", when+": "+rp.Observed+" expected "+m.key(), rp)
	}
}
