package main

// Constructors for transactions (as wire-form Actions) and the catalogue of
// privileged transaction types.

import (
	"fmt"
	"math/big"

	"cosmossdk.io/math"

	cctptypes "github.com/circlefin/noble-cctp/x/cctp/types"
)

func MkSend(from string, dst uint32, recipient, body []byte) Action {
	return Act(fmt.Sprintf("send(dst=%d,body=%dB) by %s", dst, len(body), acctName(from)),
		&cctptypes.MsgSendMessage{From: from, DestinationDomain: dst, Recipient: recipient, MessageBody: body})
}

func MkSendWithCaller(from string, dst uint32, recipient, body, caller []byte) Action {
	return Act(fmt.Sprintf("sendWithCaller(dst=%d,body=%dB,caller=%dB) by %s", dst, len(body), len(caller), acctName(from)),
		&cctptypes.MsgSendMessageWithCaller{From: from, DestinationDomain: dst, Recipient: recipient, MessageBody: body, DestinationCaller: caller})
}

func MkDeposit(from string, amount math.Int, dst uint32, mintRecipient []byte, burnToken string) Action {
	return Act(fmt.Sprintf("deposit(%s %s,dst=%d) by %s", amount, burnToken, dst, acctName(from)),
		&cctptypes.MsgDepositForBurn{From: from, Amount: amount, DestinationDomain: dst, MintRecipient: mintRecipient, BurnToken: burnToken})
}

func MkDepositWithCaller(from string, amount math.Int, dst uint32, mintRecipient []byte, burnToken string, caller []byte) Action {
	return Act(fmt.Sprintf("depositWithCaller(%s %s,dst=%d,caller=%dB) by %s", amount, burnToken, dst, len(caller), acctName(from)),
		&cctptypes.MsgDepositForBurnWithCaller{From: from, Amount: amount, DestinationDomain: dst, MintRecipient: mintRecipient, BurnToken: burnToken, DestinationCaller: caller})
}

func MkReceive(from string, msg, att []byte, what string) Action {
	return Act(fmt.Sprintf("receive(%s) by %s", what, acctName(from)),
		&cctptypes.MsgReceiveMessage{From: from, Message: msg, Attestation: att})
}

func MkReplaceMessage(from string, orig, att, newBody, newCaller []byte, what string) Action {
	return Act(fmt.Sprintf("replaceMessage(%s,newBody=%dB,newCaller=%dB) by %s", what, len(newBody), len(newCaller), acctName(from)),
		&cctptypes.MsgReplaceMessage{From: from, OriginalMessage: orig, OriginalAttestation: att, NewMessageBody: newBody, NewDestinationCaller: newCaller})
}

func MkReplaceDeposit(from string, orig, att, newCaller, newMintRecipient []byte, what string) Action {
	return Act(fmt.Sprintf("replaceDeposit(%s,newCaller=%dB,newRecipient=%dB) by %s", what, len(newCaller), len(newMintRecipient), acctName(from)),
		&cctptypes.MsgReplaceDepositForBurn{From: from, OriginalMessage: orig, OriginalAttestation: att, NewDestinationCaller: newCaller, NewMintRecipient: newMintRecipient})
}

// InboundBurn builds (with the reference encoder) a message from the remote
// token messenger of domain src, addressed to the CCTP module, minting `amount`
// of the token linked to (src, RemoteToken0) to acct.
func InboundBurn(src uint32, nonce uint64, amount *big.Int, mintRecipient32 []byte, caller []byte) []byte {
	messenger := RemoteMessenger0
	token := RemoteToken0
	if src == DomAvax {
		messenger = RemoteMessenger1
		token = RemoteToken1
	}
	body := RefBurn(0, token, mintRecipient32, amount, distinct32(0x55))
	if caller == nil {
		caller = Zero32
	}
	return RefMsg(0, src, Noble, nonce, messenger, PaddedModule, caller, body)
}

// InboundPlain builds a message to a non-module recipient.
func InboundPlain(src uint32, nonce uint64, body []byte, caller []byte) []byte {
	if caller == nil {
		caller = Zero32
	}
	return RefMsg(0, src, Noble, nonce, distinct32(0x66), distinct32(0x77), caller, body)
}

// ---------------------------------------------------------------------------
// Privileged transaction catalogue

type Role int

const (
	RoleOwner Role = iota
	RoleAttMgr
	RolePauser
	RoleTokenCtl
	RolePending
)

func (r Role) String() string {
	return [...]string{"owner", "attester-manager", "pauser", "token-controller", "pending-owner"}[r]
}

type AdminTx struct {
	Name string
	Role Role
	// Make builds the transaction for a submitter with parameters valid in AdminGenesis().
	Make func(from string) Action
}

// AdminGenesis: base genesis with 3 attesters/threshold 2 so that every
// privileged transaction below has valid parameters.
func AdminGenesis() cctptypes.GenesisState {
	g := BaseGenesis()
	g.AttesterList = []cctptypes.Attester{{Attester: Keys[0].Hex}, {Attester: Keys[1].Hex}, {Attester: Keys[2].Hex}}
	g.SignatureThreshold = &cctptypes.SignatureThreshold{Amount: 2}
	return g
}

var AdminTxs = []AdminTx{
	{"UpdateOwner", RoleOwner, func(f string) Action {
		return Act("updateOwner("+Outsider.Name+") by "+acctName(f), &cctptypes.MsgUpdateOwner{From: f, NewOwner: Outsider.Str})
	}},
	{"UpdateAttesterManager", RoleOwner, func(f string) Action {
		return Act("updateAttesterManager("+Outsider.Name+") by "+acctName(f), &cctptypes.MsgUpdateAttesterManager{From: f, NewAttesterManager: Outsider.Str})
	}},
	{"UpdatePauser", RoleOwner, func(f string) Action {
		return Act("updatePauser("+Outsider.Name+") by "+acctName(f), &cctptypes.MsgUpdatePauser{From: f, NewPauser: Outsider.Str})
	}},
	{"UpdateTokenController", RoleOwner, func(f string) Action {
		return Act("updateTokenController("+Outsider.Name+") by "+acctName(f), &cctptypes.MsgUpdateTokenController{From: f, NewTokenController: Outsider.Str})
	}},
	{"UpdateMaxMessageBodySize", RoleOwner, func(f string) Action {
		return Act("updateMaxMessageBodySize(9000) by "+acctName(f), &cctptypes.MsgUpdateMaxMessageBodySize{From: f, MessageSize: 9000})
	}},
	{"AddRemoteTokenMessenger", RoleOwner, func(f string) Action {
		return Act("addRemoteTokenMessenger(7) by "+acctName(f), &cctptypes.MsgAddRemoteTokenMessenger{From: f, DomainId: 7, Address: distinct32(0xE0)})
	}},
	{"RemoveRemoteTokenMessenger", RoleOwner, func(f string) Action {
		return Act("removeRemoteTokenMessenger(1) by "+acctName(f), &cctptypes.MsgRemoveRemoteTokenMessenger{From: f, DomainId: DomAvax})
	}},
	{"EnableAttester", RoleAttMgr, func(f string) Action {
		return Act("enableAttester(K4) by "+acctName(f), &cctptypes.MsgEnableAttester{From: f, Attester: Keys[3].Hex})
	}},
	{"DisableAttester", RoleAttMgr, func(f string) Action {
		return Act("disableAttester(K3) by "+acctName(f), &cctptypes.MsgDisableAttester{From: f, Attester: Keys[2].Hex})
	}},
	{"UpdateSignatureThreshold", RoleAttMgr, func(f string) Action {
		return Act("updateSignatureThreshold(3) by "+acctName(f), &cctptypes.MsgUpdateSignatureThreshold{From: f, Amount: 3})
	}},
	{"PauseBurningAndMinting", RolePauser, func(f string) Action {
		return Act("pauseBurningAndMinting by "+acctName(f), &cctptypes.MsgPauseBurningAndMinting{From: f})
	}},
	{"UnpauseBurningAndMinting", RolePauser, func(f string) Action {
		return Act("unpauseBurningAndMinting by "+acctName(f), &cctptypes.MsgUnpauseBurningAndMinting{From: f})
	}},
	{"PauseSendingAndReceivingMessages", RolePauser, func(f string) Action {
		return Act("pauseSendingAndReceiving by "+acctName(f), &cctptypes.MsgPauseSendingAndReceivingMessages{From: f})
	}},
	{"UnpauseSendingAndReceivingMessages", RolePauser, func(f string) Action {
		return Act("unpauseSendingAndReceiving by "+acctName(f), &cctptypes.MsgUnpauseSendingAndReceivingMessages{From: f})
	}},
	{"LinkTokenPair", RoleTokenCtl, func(f string) Action {
		return Act("linkTokenPair(5,F0) by "+acctName(f), &cctptypes.MsgLinkTokenPair{From: f, RemoteDomain: 5, RemoteToken: distinct32(0xF0), LocalToken: "uusdc"})
	}},
	{"UnlinkTokenPair", RoleTokenCtl, func(f string) Action {
		return Act("unlinkTokenPair(0,token0) by "+acctName(f), &cctptypes.MsgUnlinkTokenPair{From: f, RemoteDomain: DomEth, RemoteToken: RemoteToken0, LocalToken: "uusdc"})
	}},
	{"SetMaxBurnAmountPerMessage", RoleTokenCtl, func(f string) Action {
		return Act("setMaxBurnAmountPerMessage(uusdc,777) by "+acctName(f), &cctptypes.MsgSetMaxBurnAmountPerMessage{From: f, LocalToken: "uusdc", Amount: math.NewInt(777)})
	}},
	{"AcceptOwner", RolePending, func(f string) Action {
		return Act("acceptOwner by "+acctName(f), &cctptypes.MsgAcceptOwner{From: f})
	}},
}
