package main

// C09 -- replacement can only re-target the submitter's own attested message.

import (
	"bytes"
	"fmt"
	sdk "github.com/cosmos/cosmos-sdk/types"
	"math/big"
	"strings"

	"cosmossdk.io/math"

	cctptypes "github.com/circlefin/noble-cctp/x/cctp/types"

	"cctpmc/refcodec"
)

func init() {
	register(&Check{
		ID:    "C09",
		Level: "model_checking",
		Rule: "product: configuration (4 pause-flag states x attester set {as attested, rotated away, rotated back}, reached by real transactions after the originals were emitted) x original " +
			"{own user message, someone else's, foreign-domain with sender=submitter, bad attestation, genuine own deposit, someone else's deposit, user-sent burn-message imitation naming the submitter, a replacement of a replacement (message and deposit), an own message claiming version 1} " +
			"x {replace-message, replace-deposit} x new body / mint recipient / caller in {zero32, nonzero32, empty, 31, 33, 64, 96 bytes, oversized body; thorough: also a single 0xFF byte at each of the 32 offsets and 15 more body lengths up to the limit} x 4 submitters (the sender, another user, and two shorter accounts whose address is a prefix of the sender's; the latter with a reduced shape set); success only under the stated conditions, " +
			"replacement reference-decoded and compared with the original field by field, raw store/ledger/counter diff must be empty; distinct_nontrivial = distinct (original kind, transaction, condition vector, outcome)",
		Assumptions: []string{"success ONLY-IF the stated conditions; the canonical well-formed case must succeed so the check is not vacuous; other accepted-by-conditions shapes (e.g. empty new caller) are EITHER"},
		Jobs:        c09Jobs,
		Vacuity: func(m *Run) []string {
			if m.Classes["wellformed-refused"] > 0 {
				m.Truncate(fmt.Sprintf("C09: %d well-formed replacements of the submitter's own attested message were refused (not judged: the statement is one-directional)", m.Classes["wellformed-refused"]))
			}
			if m.Classes["replacement-checked"] == 0 || m.Classes["error"] == 0 {
				return []string{fmt.Sprintf("C09 vacuous: %v", m.Classes)}
			}
			return nil
		},
	})
}

func c09Jobs(tier string) []Job {
	var jobs []Job
	for _, bp := range []bool{false, true} {
		for _, sp := range []bool{false, true} {
			for _, att := range []string{"as-attested", "rotated-away", "rotated-back"} {
				bp, sp, att := bp, sp, att
				jobs = append(jobs, Job{Name: fmt.Sprintf("replace burnPaused=%v sendPaused=%v attesters=%s", bp, sp, att), Run: func(r *Run) { c09Run(r, bp, sp, att) }})
			}
		}
	}
	return jobs
}

func c09Run(r *Run, burnPaused, sendPaused bool, attCfg string) {
	scn := c06Scenario()
	scn.Genesis.AttesterList = append([]cctptypes.Attester{}, scn.Genesis.AttesterList...)
	for i := range scn.Genesis.AttesterList {
		if scn.Genesis.AttesterList[i].Attester == Keys[1].Hex {
			scn.Genesis.AttesterList[i].Attester = c09K2Spelling(attCfg)
		}
	}
	w := scn.Build(KindDB)
	signers := Keys[0:2]
	var pre []Action
	do := func(a Action) Outcome {
		o := w.Apply(a)
		pre = append(pre, a)
		if !o.OK {
			panic(preambleFailed{fmt.Sprintf("%s: %s%s", a.Desc, o.Err, o.PanicVal)})
		}
		return o
	}
	sentOf := func(o Outcome) []byte {
		if ms := MessageSentOf(o.Events); len(ms) == 1 {
			return ms[0]
		}
		r.HarnessError("no MessageSent in preamble")
		return make([]byte, 116)
	}
	imitation := RefBurn(0, refKeccak([]byte("uusdc")), distinct32(0x24), big.NewInt(999999), pad32(UserA.Addr))
	type orig struct {
		name string
		msg  []byte
		att  []byte
	}
	var origs []orig
	ownMsg := sentOf(do(MkSendWithCaller(UserA.Str, DomEth, distinct32(0x21), []byte("own"), distinct32(0x22))))
	otherMsg := sentOf(do(MkSend(UserB.Str, DomAvax, distinct32(0x21), []byte("other's"))))
	ownDep := sentOf(do(MkDeposit(UserA.Str, math.NewInt(7), DomEth, distinct32(0x24), "uusdc")))
	otherDep := sentOf(do(MkDepositWithCaller(UserB.Str, math.NewInt(9), DomAvax, distinct32(0x24), "uusdc", distinct32(0x25))))
	imit := sentOf(do(MkSend(UserA.Str, DomEth, RemoteMessenger0, imitation)))
	repl1 := sentOf(do(MkReplaceMessage(UserA.Str, ownMsg, Attest(ownMsg, signers), []byte("first replacement"), distinct32(0x29), "own message")))
	repl2 := sentOf(do(MkReplaceDeposit(UserA.Str, ownDep, Attest(ownDep, signers), distinct32(0x2A), distinct32(0x2B), "own deposit")))
	foreign := RefMsg(0, DomEth, Noble, 3, pad32(UserA.Addr), distinct32(0x21), Zero32, []byte("from elsewhere"))
	foreignDep := RefMsg(0, DomEth, 1, 3, PaddedModule, RemoteMessenger1, Zero32, RefBurn(0, RemoteToken0, distinct32(0x24), big.NewInt(5), pad32(UserA.Addr)))
	ownV1 := RefMsg(1, Noble, DomEth, 1<<40, pad32(UserA.Addr), distinct32(0x21), Zero32, []byte("version one"))
	origs = []orig{
		{"own user message", ownMsg, Attest(ownMsg, signers)},
		{"someone else's user message", otherMsg, Attest(otherMsg, signers)},
		{"foreign-domain message with sender=submitter", foreign, Attest(foreign, signers)},
		{"foreign-domain burn message with depositor=submitter", foreignDep, Attest(foreignDep, signers)},
		{"own user message, attested by unknown keys", ownMsg, Attest(ownMsg, Keys[3:5])},
		{"own user message, attestation over another message", ownMsg, Attest(otherMsg, signers)},
		{"own deposit", ownDep, Attest(ownDep, signers)},
		{"own deposit, one signature", ownDep, Attest(ownDep, signers[:1])},
		{"someone else's deposit", otherDep, Attest(otherDep, signers)},
		{"user-sent burn-message imitation naming the submitter", imit, Attest(imit, signers)},
		{"replacement of own message", repl1, Attest(repl1, signers)},
		{"replacement of own deposit", repl2, Attest(repl2, signers)},
		{"truncated own message (115 bytes)", ownMsg[:115], Attest(ownMsg[:115], signers)},
		{"own message claiming version 1", ownV1, Attest(ownV1, signers)},
		// over-long attestations: the two honest signatures followed by something else
		{"own user message, attestation followed by 65 zero bytes", ownMsg, append(Attest(ownMsg, signers), make([]byte, 65)...)},
		{"own user message, attestation followed by a third honest signature of a non-attester", ownMsg, append(Attest(ownMsg, signers), Keys[5].SignRSV(ownMsg)...)},
		{"own deposit, attestation followed by 65 zero bytes", ownDep, append(Attest(ownDep, signers), make([]byte, 65)...)},
	}
	var disabled []string
	switch attCfg {
	case "rotated-away", "rotated-back":
		do(Act("enableAttester(K3) by A1", &cctptypes.MsgEnableAttester{From: AttMgr.Str, Attester: Keys[2].Hex}))
		k2 := c09K2Spelling(attCfg)
		do(Act("disableAttester("+attName(k2)+") by A1", &cctptypes.MsgDisableAttester{From: AttMgr.Str, Attester: k2}))
		disabled = append(disabled, k2)
		if attCfg == "rotated-back" {
			do(Act("enableAttester(0xK2) by A1", &cctptypes.MsgEnableAttester{From: AttMgr.Str, Attester: Keys[1].Spell(1)}))
		}
	}
	if burnPaused {
		do(Act("pauseBurningAndMinting by A2", &cctptypes.MsgPauseBurningAndMinting{From: Pauser.Str}))
	}
	if sendPaused {
		do(Act("pauseSendingAndReceiving by A2", &cctptypes.MsgPauseSendingAndReceivingMessages{From: Pauser.Str}))
	}
	base := w.Dump()
	baseHash := HashBytes(base)
	view := ViewOf(w)
	// "the current attester set" is what the history of successful enable/disable transactions
	// says, not what the registry happens to still hold
	for _, d := range disabled {
		var keep []string
		for _, a := range view.Attesters {
			if a != d {
				keep = append(keep, a)
			}
		}
		view.Attesters = keep
	}
	r.States++
	cfg := fmt.Sprintf("burnPaused=%v sendPaused=%v attesters=%s", burnPaused, sendPaused, attCfg)

	shapes := []struct {
		name string
		b    []byte
	}{{"nonzero32", distinct32(0x2C)}, {"zero32", make([]byte, 32)}, {"empty", nil}, {"31B", distinct32(0x2C)[:31]},
		{"33B", append(distinct32(0x2C), 0x01)}, {"64B", append(distinct32(0x2C), distinct32(0x3C)...)}, {"96B", append(append(distinct32(0x2C), distinct32(0x3C)...), pad32(UserB.Addr)...)}}
	newBodies := []struct {
		name string
		b    []byte
	}{{"empty", nil}, {"1B", []byte{1}}, {"burn-like", imitation}, {"8001B", make([]byte, 8001)}}

	if r.Tier == "thorough" {
		// a single 0xFF byte at every offset of the new 32-byte field; more new-body lengths
		for i := 0; i < 32; i++ {
			p := make([]byte, 32)
			p[i] = 0xFF
			shapes = append(shapes, struct {
				name string
				b    []byte
			}{fmt.Sprintf("ff@%d", i), p})
		}
		for _, n := range []int{2, 31, 32, 33, 115, 116, 117, 131, 133, 248, 255, 256, 4096, 7999, 8000} {
			b := make([]byte, n)
			for i := range b {
				b[i] = byte(i*5 + n)
			}
			newBodies = append(newBodies, struct {
				name string
				b    []byte
			}{fmt.Sprintf("%dB", n), b})
		}
	}

	run := func(a Action, origName string) {
		w.Load(base)
		p := Predict(w, view, a)
		o := w.Apply(a)
		r.Transitions++
		r.Class(o.Class())
		r.Distinct(fmt.Sprintf("%s|%s|%s|%s", origName, p.Kind, p.CondKey(), o.Class()))
		path := append(append([]Action{}, pre...), a)
		rp := func(exp, obs string) Replay {
			x := scn.Replay("actions", path)
			x.Expected, x.Observed = exp, obs
			return x
		}
		switch {
		case o.Panicked:
			r.Violate("C09 panic in replacement", a.Desc+": "+o.PanicVal, rp("", ""))
			return
		case p.Exp == MustFail && o.OK && strings.HasSuffix(a.Desc, " by "+c09LongName) && len(p.failed()) == 1 &&
			(p.failed()[0] == "original sender is the submitter" || p.failed()[0] == "depositor is the submitter"):
			// finding F10 (known_findings.json): the handlers build the submitter's padded form with copy(buf[12:], addr), which
			// keeps only the first 20 bytes of a longer account. Named by what fails (the account shape and the handler), so that
			// any other way of accepting a non-sender -- another account, another condition false as well -- keeps its own name.
			r.Violate("C09 "+p.Kind+" accepted from a 32-byte account that only begins with the "+map[bool]string{true: "sender", false: "depositor"}[p.failed()[0] == "original sender is the submitter"]+"'s 20 bytes",
				fmt.Sprintf("[%s] %s: %s", cfg, a.Desc, p.Why), rp("MUST_FAIL: "+p.Why, "ok"))
			return
		case p.Exp == MustFail && o.OK:
			r.Violate("C09 replacement accepted although a condition is false: "+firstFailed(p), fmt.Sprintf("[%s] %s: %s", cfg, a.Desc, p.Why), rp("MUST_FAIL: "+p.Why, "ok"))
			return
		case p.Exp == MustSucceed && !o.OK:
			// "succeeds only for ..." is one-directional; a refused well-formed replacement is recorded, not reported
			r.Class("wellformed-refused")
			return
		}
		post := w.Dump()
		if HashBytes(post) != baseHash {
			r.Violate("C09 replacement changed stored state, funds or the nonce counter", fmt.Sprintf("[%s] %s (%s): %v", cfg, a.Desc, o.Class(), DiffDumps(base, post)), rp("no state change", fmt.Sprint(DiffDumps(base, post))))
		}
		if !o.OK {
			return
		}
		if len(o.Deps) != 0 {
			r.Violate("C09 replacement called the bank or the token factory", fmt.Sprintf("%s: %s", a.Desc, depsStr(o.Deps)), rp("no dependency call", depsStr(o.Deps)))
		}
		sent := MessageSentOf(o.Events)
		if len(sent) != 1 || p.Sent == nil {
			r.Violate("C09 replacement did not emit exactly one message", a.Desc, rp("1", fmt.Sprint(len(sent))))
			return
		}
		dm, err := refcodec.DecodeMessage(sent[0])
		if err != nil || !refMsgEqual(dm, p.Sent) {
			what := "malformed"
			if err == nil {
				what = c06FirstDiff(dm, p.Sent)
			}
			r.Violate("C09 replacement differs from the original outside the fields it may change: "+what,
				fmt.Sprintf("[%s] %s:\n emitted  %s\n expected %s\n original %s", cfg, a.Desc, refMsgStr(dm), refMsgStr(p.Sent), refMsgStr(p.In)), rp(refMsgStr(p.Sent), refMsgStr(dm)))
			return
		}
		r.Class("replacement-checked")
		if len(r.Samples) < 3 {
			r.Sample("replacement", map[string]any{"config": cfg, "tx": a.Desc, "original": refMsgStr(p.In), "replacement": refMsgStr(dm)})
		}
	}

	// submitters: the original sender, somebody else, and two different accounts whose (shorter)
	// addresses are a prefix of the original sender's -- they are not the sender
	subs := []Account{UserA, UserB}
	if UserA.Addr[19] != 0 && UserA.Addr[8] != 0 {
		for _, n := range []int{8, 19} {
			a := sdk.AccAddress(append([]byte{}, UserA.Addr[:n]...))
			subs = append(subs, Account{Name: fmt.Sprintf("A4[:%d]", n), Addr: a, Str: a.String()})
		}
	}
	// ... and a different, LONGER account (32 bytes, as module-derived and interchain accounts are) whose address
	// begins with the original sender's 20 bytes -- not the sender either (round 6)
	longA := sdk.AccAddress(append(append([]byte{}, UserA.Addr...), bytes.Repeat([]byte{0xCD}, 12)...))
	subs = append(subs, Account{Name: c09LongName, Addr: longA, Str: longA.String()})
	for _, og := range origs {
		for si, sub := range subs {
			shapes, newBodies := shapes, newBodies
			if si >= 2 {
				shapes, newBodies = shapes[:2], newBodies[:2]
			}
			// a "replacement" that repeats the original's own body and caller
			if dm, err := refcodec.DecodeMessage(og.msg); err == nil {
				a := MkReplaceMessage(sub.Str, og.msg, og.att, dm.Body, dm.DestinationCaller, og.name)
				a.Desc = fmt.Sprintf("replaceMessage(%s, same body and caller as the original) by %s", og.name, sub.Name)
				run(a, og.name)
				if db, err := refcodec.DecodeBurn(dm.Body); err == nil {
					a := MkReplaceDeposit(sub.Str, og.msg, og.att, dm.DestinationCaller, db.MintRecipient, og.name)
					a.Desc = fmt.Sprintf("replaceDeposit(%s, same recipient and caller as the original) by %s", og.name, sub.Name)
					run(a, og.name)
				}
			}
			for _, nb := range newBodies {
				for _, nc := range shapes {
					a := MkReplaceMessage(sub.Str, og.msg, og.att, nb.b, nc.b, og.name)
					a.Desc = fmt.Sprintf("replaceMessage(%s, newBody=%s, newCaller=%s) by %s", og.name, nb.name, nc.name, sub.Name)
					run(a, og.name)
				}
			}
			for _, nr := range shapes {
				for _, nc := range shapes {
					a := MkReplaceDeposit(sub.Str, og.msg, og.att, nc.b, nr.b, og.name)
					a.Desc = fmt.Sprintf("replaceDeposit(%s, newRecipient=%s, newCaller=%s) by %s", og.name, nr.name, nc.name, sub.Name)
					run(a, og.name)
				}
			}
		}
	}
}

const c09LongName = "A4+12B"

// c09K2Spelling: how the second attester is spelled in the genesis of this configuration
// (upper case where it is later rotated away for good).
func c09K2Spelling(attCfg string) string {
	if attCfg == "rotated-away" {
		return Keys[1].Spell(2)
	}
	return Keys[1].Hex
}
