package main

// Apply: the commit-or-discard discipline of baseapp.runTx around one real
// handler call, plus the two seams (dependency probe, recording store service).

import (
	"context"
	"encoding/hex"
	"errors"
	"fmt"
	"reflect"
	"runtime/debug"
	"strings"

	corestore "cosmossdk.io/core/store"
	abci "github.com/cometbft/cometbft/abci/types"
	sdk "github.com/cosmos/cosmos-sdk/types"
	bankkeeper "github.com/cosmos/cosmos-sdk/x/bank/keeper"
	"github.com/cosmos/gogoproto/proto"

	ftfkeeper "github.com/circlefin/noble-fiattokenfactory/x/fiattokenfactory/keeper"
	ftftypes "github.com/circlefin/noble-fiattokenfactory/x/fiattokenfactory/types"

	cctptypes "github.com/circlefin/noble-cctp/x/cctp/types"
)

// ---------------------------------------------------------------------------
// Dependency probe

type DepCall struct {
	Kind   string // "transfer" | "burn" | "mint"
	From   string
	To     string // recipient module (transfer) or address (mint)
	Denom  string
	Amount string
	Err    string // "" = returned nil
	Fault  string // "", "before", "after"
}

const (
	FaultNone   = 0
	FaultBefore = 1 // fail without performing the call
	FaultAfter  = 2 // perform the call, then report an error
	FaultPanic  = 3 // the dependency panics (e.g. out of gas) without performing the call
)

var errInjected = errors.New("verif: injected dependency failure")

type DepsProbe struct {
	bank bankkeeper.BaseKeeper
	ftf  *ftfkeeper.Keeper

	Calls []DepCall
	Plan  []int // fault per n-th effectful dependency call of this tx (missing = none)
	// MintingDenomOverride, when non-nil, answers GetMintingDenom.
	MintingDenomOverride *string
}

func (p *DepsProbe) reset(plan []int) {
	p.Calls = nil
	p.Plan = plan
}

func (p *DepsProbe) fault() int {
	i := len(p.Calls)
	if i < len(p.Plan) {
		return p.Plan[i]
	}
	return FaultNone
}

func (p *DepsProbe) maybePanic(f int, c *DepCall) {
	if f == FaultPanic {
		c.Err = "panic"
		p.Calls = append(p.Calls, *c)
		panic("verif: injected dependency panic (out of gas)")
	}
}

func faultName(f int) string {
	switch f {
	case FaultBefore:
		return "before"
	case FaultAfter:
		return "after"
	case FaultPanic:
		return "panic"
	}
	return ""
}

func errStr(e error) string {
	if e == nil {
		return ""
	}
	return e.Error()
}

func (p *DepsProbe) GetBalance(ctx context.Context, addr sdk.AccAddress, denom string) sdk.Coin {
	return p.bank.GetBalance(ctx, addr, denom)
}

func (p *DepsProbe) SendCoinsFromAccountToModule(ctx context.Context, senderAddr sdk.AccAddress, recipientModule string, amt sdk.Coins) error {
	f := p.fault()
	c := DepCall{Kind: "transfer", From: senderAddr.String(), To: recipientModule, Fault: faultName(f)}
	if len(amt) == 1 {
		c.Denom, c.Amount = amt[0].Denom, amt[0].Amount.String()
	} else {
		c.Denom, c.Amount = "?", amt.String()
	}
	p.maybePanic(f, &c)
	var err error
	if f == FaultBefore {
		err = errInjected
	} else {
		err = p.bank.SendCoinsFromAccountToModule(ctx, senderAddr, recipientModule, amt)
		if f == FaultAfter && err == nil {
			err = errInjected
		}
	}
	c.Err = errStr(err)
	p.Calls = append(p.Calls, c)
	return err
}

func (p *DepsProbe) Burn(ctx sdk.Context, msg *ftftypes.MsgBurn) (*ftftypes.MsgBurnResponse, error) {
	f := p.fault()
	c := DepCall{Kind: "burn", From: msg.From, Denom: msg.Amount.Denom, Amount: msg.Amount.Amount.String(), Fault: faultName(f)}
	p.maybePanic(f, &c)
	var err error
	var resp *ftftypes.MsgBurnResponse
	if f == FaultBefore {
		err = errInjected
	} else {
		resp, err = p.ftf.Burn(ctx, msg)
		if f == FaultAfter && err == nil {
			resp, err = nil, errInjected
		}
	}
	c.Err = errStr(err)
	p.Calls = append(p.Calls, c)
	return resp, err
}

func (p *DepsProbe) Mint(ctx sdk.Context, msg *ftftypes.MsgMint) (*ftftypes.MsgMintResponse, error) {
	f := p.fault()
	c := DepCall{Kind: "mint", From: msg.From, To: msg.Address, Denom: msg.Amount.Denom, Amount: msg.Amount.Amount.String(), Fault: faultName(f)}
	p.maybePanic(f, &c)
	var err error
	var resp *ftftypes.MsgMintResponse
	if f == FaultBefore {
		err = errInjected
	} else {
		resp, err = p.ftf.Mint(ctx, msg)
		if f == FaultAfter && err == nil {
			resp, err = nil, errInjected
		}
	}
	c.Err = errStr(err)
	p.Calls = append(p.Calls, c)
	return resp, err
}

func (p *DepsProbe) GetMintingDenom(ctx context.Context) ftftypes.MintingDenom {
	if p.MintingDenomOverride != nil {
		return ftftypes.MintingDenom{Denom: *p.MintingDenomOverride}
	}
	return p.ftf.GetMintingDenom(ctx)
}

// ---------------------------------------------------------------------------
// Recording store service

type StoreOp struct {
	Op  string // "set" | "del"
	Key []byte
	Val []byte
}

type RecStoreService struct {
	inner corestore.KVStoreService
	Ops   []StoreOp
	Reads int
}

func (r *RecStoreService) OpenKVStore(ctx context.Context) corestore.KVStore {
	return &recKV{r: r, kv: r.inner.OpenKVStore(ctx)}
}

type recKV struct {
	r  *RecStoreService
	kv corestore.KVStore
}

func cp(b []byte) []byte { return append([]byte(nil), b...) }

func (s *recKV) Get(key []byte) ([]byte, error) { s.r.Reads++; return s.kv.Get(key) }
func (s *recKV) Has(key []byte) (bool, error)   { s.r.Reads++; return s.kv.Has(key) }
func (s *recKV) Set(key, value []byte) error {
	s.r.Ops = append(s.r.Ops, StoreOp{"set", cp(key), cp(value)})
	return s.kv.Set(key, value)
}
func (s *recKV) Delete(key []byte) error {
	s.r.Ops = append(s.r.Ops, StoreOp{"del", cp(key), nil})
	return s.kv.Delete(key)
}
func (s *recKV) Iterator(start, end []byte) (corestore.Iterator, error) {
	s.r.Reads++
	return s.kv.Iterator(start, end)
}
func (s *recKV) ReverseIterator(start, end []byte) (corestore.Iterator, error) {
	s.r.Reads++
	return s.kv.ReverseIterator(start, end)
}

// ---------------------------------------------------------------------------
// Actions and outcomes

// Action is one transaction message in wire form; it is decoded afresh for every
// execution so that no input memory is shared between executions.
type Action struct {
	Type  string `json:"type"` // proto message name, e.g. circle.cctp.v1.MsgSendMessage
	Hex   string `json:"hex"`  // proto wire bytes
	Desc  string `json:"desc,omitempty"`
	Fault []int  `json:"fault,omitempty"` // dependency fault plan
	raw   []byte
}

func Act(desc string, m proto.Message) Action {
	bz, err := proto.Marshal(m)
	if err != nil {
		panic(err)
	}
	return Action{Type: proto.MessageName(m), Hex: hex.EncodeToString(bz), Desc: desc, raw: bz}
}

func RawAct(desc, typ string, wire []byte) Action {
	return Action{Type: typ, Hex: hex.EncodeToString(wire), Desc: desc, raw: wire}
}

func (a Action) WithFault(plan ...int) Action {
	a.Fault = plan
	a.Desc = fmt.Sprintf("%s fault=%v", a.Desc, plan)
	return a
}

func (a *Action) Bytes() []byte {
	if a.raw == nil && a.Hex != "" {
		b, err := hex.DecodeString(a.Hex)
		if err != nil {
			panic(err)
		}
		a.raw = b
	}
	return a.raw
}

// Decode builds a fresh message value from the wire bytes (generated Unmarshal).
func (a *Action) Decode() (proto.Message, error) {
	t := proto.MessageType(a.Type)
	if t == nil {
		return nil, fmt.Errorf("unknown message type %q", a.Type)
	}
	m := reflect.New(t.Elem()).Interface().(proto.Message)
	if err := proto.Unmarshal(a.Bytes(), m); err != nil {
		return nil, err
	}
	return m, nil
}

type Outcome struct {
	OK        bool
	Err       string
	Panicked  bool
	PanicVal  string
	Stack     string
	Resp      proto.Message
	Events    sdk.Events // only when OK
	Deps      []DepCall
	Writes    []StoreOp // raw writes issued by the handler (even if later discarded)
	DecodeErr bool
}

func (o Outcome) Class() string {
	switch {
	case o.Panicked:
		return "panic"
	case o.OK:
		return "ok"
	case o.DecodeErr:
		return "decode-error"
	}
	return "error"
}

// handlerName maps circle.cctp.v1.MsgFoo -> Foo
func handlerName(typ string) string {
	i := strings.LastIndex(typ, ".Msg")
	if i < 0 {
		return ""
	}
	return typ[i+4:]
}

// CallHandler invokes the real msgServer method for msg on ctx, with recover().
func (w *World) CallHandler(ctx sdk.Context, typ string, msg proto.Message) (resp proto.Message, err error, panicked bool, pv string, stack string) {
	defer func() {
		if r := recover(); r != nil {
			panicked = true
			pv = fmt.Sprint(r)
			stack = string(debug.Stack())
			resp, err = nil, nil
		}
	}()
	m := reflect.ValueOf(w.MS).MethodByName(handlerName(typ))
	if !m.IsValid() {
		return nil, fmt.Errorf("no handler for %s", typ), false, "", ""
	}
	out := m.Call([]reflect.Value{reflect.ValueOf(ctx), reflect.ValueOf(msg)})
	if !out[1].IsNil() {
		err = out[1].Interface().(error)
	}
	if !out[0].IsNil() {
		resp = out[0].Interface().(proto.Message)
	}
	return
}

// AdvanceType is a pseudo-transaction of the harness: the chain advances by a
// million blocks and ten years (nothing else happens).
const AdvanceType = "verif.AdvanceBlocks"

func AdvanceAction() Action {
	return Action{Type: AdvanceType, Desc: "advance 1,000,000 blocks / 10 years"}
}

// Apply executes one transaction on the world: branch, run, commit iff success.
func (w *World) Apply(a Action) Outcome {
	if a.Type == AdvanceType {
		w.AdvanceBlocks(1_000_000, 10*365*24*3600)
		return Outcome{OK: true}
	}
	msg, derr := a.Decode()
	if derr != nil {
		return Outcome{Err: "decode: " + derr.Error(), DecodeErr: true}
	}
	w.Probe.reset(a.Fault)
	w.Rec.Ops = nil
	cctx, write := w.ctx.WithEventManager(sdk.NewEventManager()).CacheContext()
	resp, err, panicked, pv, stack := w.CallHandler(cctx, a.Type, msg)
	o := Outcome{Deps: w.Probe.Calls, Writes: w.Rec.Ops}
	w.Probe.reset(nil)
	switch {
	case panicked:
		o.Panicked, o.PanicVal, o.Stack = true, pv, stack
	case err != nil:
		o.Err = err.Error()
		o.Resp = resp
	default:
		o.OK = true
		o.Resp = resp
		o.Events = cctx.EventManager().Events()
		write()
	}
	return o
}

// Simulate executes one transaction on a branch that is ALWAYS discarded, even
// when the handler succeeds -- what CheckTx, gas simulation, or an earlier
// message of a transaction whose later message fails amount to.
func (w *World) Simulate(a Action) Outcome {
	msg, derr := a.Decode()
	if derr != nil {
		return Outcome{Err: "decode: " + derr.Error(), DecodeErr: true}
	}
	w.Probe.reset(a.Fault)
	w.Rec.Ops = nil
	cctx, _ := w.ctx.WithEventManager(sdk.NewEventManager()).CacheContext()
	resp, err, panicked, pv, stack := w.CallHandler(cctx, a.Type, msg)
	o := Outcome{Deps: w.Probe.Calls, Writes: w.Rec.Ops}
	w.Probe.reset(nil)
	switch {
	case panicked:
		o.Panicked, o.PanicVal, o.Stack = true, pv, stack
	case err != nil:
		o.Err = err.Error()
	default:
		o.OK = true
		o.Resp = resp
		o.Events = cctx.EventManager().Events()
	}
	return o
}

// Digest renders everything observable about an outcome.
func (o Outcome) Digest() string {
	var sb strings.Builder
	fmt.Fprintf(&sb, "%s|%s|%s|", o.Class(), o.Err, o.PanicVal)
	if o.Resp != nil {
		bz, _ := proto.Marshal(o.Resp)
		sb.WriteString(hex.EncodeToString(bz))
	}
	for _, e := range o.Events {
		sb.WriteString("|" + e.Type)
		for _, at := range e.Attributes {
			sb.WriteString("," + at.Key + "=" + at.Value)
		}
	}
	return sb.String()
}

// DryRun executes f on a branch that is always discarded.
func (w *World) DryRun(f func(ctx sdk.Context)) {
	cctx, _ := w.ctx.WithEventManager(sdk.NewEventManager()).CacheContext()
	saved := w.Probe.Calls
	f(cctx)
	w.Probe.Calls = saved
}

// TypedEvents decodes all typed events of an outcome.
func TypedEvents(evs sdk.Events) []proto.Message {
	var out []proto.Message
	for _, e := range evs {
		m, err := sdk.ParseTypedEvent(abci.Event(e))
		if err != nil {
			continue
		}
		out = append(out, m)
	}
	return out
}

func MessageSentOf(evs sdk.Events) [][]byte {
	var out [][]byte
	for _, m := range TypedEvents(evs) {
		if ms, ok := m.(*cctptypes.MessageSent); ok {
			out = append(out, ms.Message)
		}
	}
	return out
}

func debugStack() []byte { return debug.Stack() }
