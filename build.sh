#!/bin/bash
# Rebuilds the harness binary against /repo's *current working tree* (Go's build
# cache makes this a no-op when nothing changed). Exit 2 = build failure (not a verdict).
set -u
export GOFLAGS=-mod=mod GOPROXY=off GOSUMDB=off GOTOOLCHAIN=local
REPO=${VERIF_REPO:-/repo}
cd "$(dirname "$0")/mc" || exit 2
exec 9>/tmp/.cctpmc.build.lock
flock 9
gen() {
  sed -e 's#^module .*#module cctpmc#' \
      -e "s#=> ./api#=> $REPO/api#" "$REPO/go.mod"
  echo "replace github.com/circlefin/noble-cctp => $REPO"
  echo "require github.com/btcsuite/btcd/btcutil v1.1.5"
  echo "require github.com/circlefin/noble-cctp v0.0.0-00010101000000-000000000000"
}
gen > go.mod.new
cmp -s go.mod.new go.mod 2>/dev/null || mv go.mod.new go.mod
rm -f go.mod.new
cmp -s "$REPO/go.sum" go.sum 2>/dev/null || cat "$REPO/go.sum" > go.sum
OUT=${VERIF_BIN:-../bin/cctpmc}
go build -tags verif ${VERIF_BUILD_FLAGS:-} -o "$OUT" . || exit 2
if [ "${VERIF_RACE:-0}" = "1" ]; then
  go build -race -tags verif ${VERIF_BUILD_FLAGS:-} -o "$(dirname "$OUT")/cctpmc-race" . || exit 2
fi
