#!/usr/bin/env python3
"""Generates MANIFEST.json from the table below (one place to keep it consistent)."""
import json, os

V = os.path.dirname(os.path.abspath(__file__))

TRUST = ("Apply mirrors baseapp's per-message branch/commit; cosmos-sdk store/IAVL, x/auth, x/bank, "
         "noble-fiattokenfactory and go-ethereum crypto behave as pinned; the reference model/codec are correct "
         "readings of the property text; bounded universes as stated in DESIGN.md section 5.")

# id -> (built?, category, technique, text, design_ref, extra note)
CHECKS = {
 "C01": (True, "model_checking", "exhaustive enumeration of adversarial attestation sequences x attester configurations against an independent reference verifier",
         "For every enabled set, key spelling and threshold, ALL sequences of up to T atoms, and the over-long ones with one reduced end, over (honest, legacy-v, high-s twin, other-message, mirror key n-d, unknown key, zero, bad v, truncated, padded) are verified by the exported "
         "verifier and by a reference reading using different recovery code; results must agree (soundness and completeness). Every configuration is also reached by transactions and exercised through receive and replace; a key enabled and disabled again (under other spellings too) must not count.", "5 C01", ""),
 "C02": (True, "model_checking", "explicit-state BFS to closure of the used-nonce lattice + exhaustive ordered-pair key grid",
         "All used-nonce sets over a small (domain, nonce) universe are reached by real receives with differing bodies, attestation encodings, callers and submitters, interleaved with pausing, attester rotation, re-linking, messenger removal and the chain advancing a million blocks; "
         "a second receive for a used pair must fail; single query, paginated list and export must equal the history in every state; every privileged transaction type is probed not to change the set; key injectivity over a boundary grid by behaviour; genesis-listed pairs (every subset x absent optional scalars) are reported used and refused; plus all 2-3 step sequences without restore.", "5 C02", ""),
 "C03": (True, "model_checking", "exhaustive product enumeration of acceptance-condition vectors over the real receive handler",
         "Every combination of acceptance-condition values (configuration built by real admin transactions x message fields) is submitted to the real "
         "handler on real bank/fiattokenfactory keepers; success must equal the conjunction computed by the reference model, rejected receives must leave all four stores byte-identical.",
         "5 C03", ""),
 "C04": (True, "model_checking", "product enumeration of burn messages + explicit-state BFS with a conservation invariant",
         "Every (amount, recipient, token, stored denom, caller) case is judged on the recorded Mint request to the real fiattokenfactory, the bank ledger and both events; "
         "a BFS interleaving receives with every other transaction type checks total minted == sum over distinct accepted burn messages in every state.", "5 C04", ""),
 "C05": (True, "model_checking", "explicit-state BFS with ledger conservation invariant on the real bank/fiattokenfactory",
         "All histories up to the depth over deposits (incl. deposits during which the transfer or the burn is refused, fails after taking effect, or panics), sends (incl. burn-message imitations), replacements and pausing: supply destroyed == sum of burn amounts over distinct module-sent nonces, "
         "only the depositor is debited, nothing stays in the module account, sender rule for every emitted message.", "5 C05", ""),
 "C06": (True, "model_checking", "exhaustive product enumeration over producing transaction types, judged by an independent decoder",
         "Every combination of destination, recipient, caller, body, amount, mint recipient and submitter at three history points is executed; the emitted bytes are decoded with the reference codec "
         "and compared field by field with request, response and DepositForBurn event; replacement events are compared with the original deposit's event.", "5 C06", ""),
 "C07": (True, "model_checking", "explicit-state BFS over interleavings of succeeding/failing outbound transactions from several start counters",
         "Every interleaving up to depth 6 (quick) / 10 (thorough) of succeeding and failing sends, deposits (incl. failures after the reservation / after the burn) and replacements: "
         "k-th success carries start+k-1 in response and emitted bytes, the query equals start+#successes in every state, replacements reuse the original nonce.", "5 C07", ""),
 "C08": (True, "model_checking", "exhaustive product enumeration of precondition vectors over the real deposit handlers",
         "Every combination of configuration (limit, flags, max body, denom spelling, burn-side state) and request (amount boundaries, token, recipient, caller, depositor, destination) "
         "is executed; success iff the documented conjunction, with 'can pay'/'burn succeeds' answered by a dry run on the real ledger.", "5 C08", ""),
 "C09": (True, "model_checking", "exhaustive product enumeration of originals x new fields x configurations",
         "Thirteen kinds of original (own, foreign, unattested, rotated, deposits, imitations, replacements of replacements) x both replacement types x new-field shapes x pause flags x attester rotation (judged by the history of successful enable/disable transactions) x five submitters incl. prefix-sharing short accounts and a 32-byte account beginning with the sender's bytes (known finding F10: two KNOWN-FINDING lines): "
         "success only under the stated conditions; the emitted replacement equals the original outside the allowed fields; raw four-store diff empty.", "5 C09", ""),
 "C10": (True, "model_checking", "explicit-state BFS over role assignments + exhaustive probes of every privileged transaction by every submitter",
         "All assignments of the four roles and the pending slot over the account universe are reached by real role transactions; in each, all 18 privileged "
         "transaction types are submitted by every account and by accounts whose addresses merely share bytes with a holder; effect iff the submitter holds the matching role, otherwise byte-identical state.", "5 C10", ""),
 "C11": (True, "model_checking", "explicit-state BFS to closure in lockstep with the lifecycle automaton",
         "The closed set of role states is explored with every role-update/accept transaction (valid and invalid new holders) by every submitter and compared with the "
         "two-step ownership automaton in every state; every unrelated transaction type is probed not to move any role.", "5 C11", ""),
 "C12": (True, "model_checking", "explicit-state BFS over pause actions + flow/admin probes in every state",
         "All flag states reachable by pause/unpause by every account (and by the passage of blocks), from several history points incl. a rotated pauser and a configured burn limit; in each the user flows and 18 admin transactions are probed against the flag x flow matrix, differentially against the same flow with nothing paused.", "5 C12", ""),
 "C13": (True, "model_checking", "explicit-state BFS to closure over the real handlers, from every valid start state",
         "Every state reachable by enable/disable/update-threshold sequences over a 3-key (quick) / 4-key (thorough) universe with extra "
         "spellings, from every start state with 1<=t<=|E|, is visited; the invariant and agreement with a reference model are checked in "
         "every state, a three-valued step oracle on every transition.", "5 C13", ""),
 "C14": (True, "fault_enumeration", "exhaustive fault-plan enumeration ({none,before,after}^calls) at every state of a bounded BFS",
         "At every history point each money-moving transaction is run under every plan in {none, fail-before, fail-after, panic}^calls and under every late validation failure after the burn; "
         "a failure must surface as an error (raw stores, public state, used-nonce and next-nonce queries and events then equal the pre-state), a success must have had nil results from all dependency calls, the debit and the burn committed on the ledger, and an emitted message / marked nonce.", "5 C14", ""),
 "C15": (True, "model_checking", "exhaustive menu over every transaction type/branch from several states with a recording store service; path census over error-return sites",
         "From six states, and from every state one (quick) / up to three (thorough) successful transactions away, every transaction type runs in its success path and every failure branch (79 of 85 error-return sites driven, 6 documented unreachable), and every query/export is called: "
         "raw store writes stay in the documented key classes, the typed diff is exactly the named entry (judged both against the reference model and, independently of it, by which registry keys differ), no invisible keys, failed transactions/queries/export write nothing.", "5 C15",
         "The static all-paths half of the quantifier is decided only for the driven paths (census in the evidence)."),
 "C16": (True, "model_checking", "exhaustive enumeration of byte strings and field values against an independent reference codec",
         "Every length 0..N x structured patterns incl. a walking byte at every position, and the product of boundary field values x field sizes, are decoded/encoded by the "
         "implementation and by an independent codec written from the stated layout; results must agree and round-trip.", "5 C16", ""),
 "C17": (True, "model_checking", "exhaustive product over genesis list contents + explicit-state BFS with export/import differential",
         "Every sequence (length <=3) over colliding entries in each keyed list (pairs of lists in thorough) x optional fields x roles: duplicates must be rejected, accepted states must round-trip as multisets; lists of 99..257 entries (beyond any default page) must round-trip; "
         "in every state of a BFS over all 25 transaction types, init(export(s)) into an empty chain must reproduce the raw module store key for key. One known finding (pending owner has no genesis field).", "5 C17", ""),
 "C18": (True, "exploration", "exhaustive enumeration of transaction-granular interleavings of several instances vs solo reference runs + separate free-running -race pass",
         "All interleavings (630 quick / 16800 thorough, x separate and shared keeper) of three colliding histories and a query-only instance vs solo runs; all interleavings of three instances writing short keys of the same collections; repeated and after-unrelated-history replays compared with references computed in fresh processes; requests rejected for several reasons at once repeated thousands of times under a free-running scheduler; "
         "discarded-transaction non-interference: for every ordered pair (s, q) of a ~135-request menu in 6 states, q after executing s on a branch that is then discarded must equal q alone and queries must be unchanged; "
         "the same bodies run free on 24 goroutines under the race detector (one shared cctp keeper, per-instance dependencies).", "5 C18",
         "Map-iteration/time/rand nondeterminism is covered only by repeated runs (randomised differential) and an informational AST scan; races wholly inside dependencies are counted, not reported."),
 "C19": (True, "model_checking", "per-registry BFS to closure + combined BFS, every query compared with reference maps (seeded from the genesis document) at the root and after every transition",
         "All contents of each registry over small colliding key universes are reached by real transactions; after every transition every single-item query for every key, every list query for every page size in key and offset mode with totals, and all scalar queries are compared with reference maps; a scalar or role a successful transaction has just set must be what its query returns; registries of 101 and 130 entries (beyond the default page) are paged with every page size.", "5 C19", ""),
 "C20": (True, "model_checking", "exhaustive product of per-field nasty domains per message type, decoded from wire bytes, under recover()",
         "Every combination of field shapes (absent, empty, malformed, oversized, non-ASCII, boundary integers) for all 25 transaction types in nine states (three of them only a genesis file can create), all 19 queries with nil/extreme requests, "
         "the decoders and verifier over all lengths 0..300, and the CLI address parser over all short strings: none may panic.", "5 C20",
         "Uses the verif hook exporting the CLI parser."),
}

NOT_BUILT_REASON = "check not built yet in this round (design in DESIGN.md section 5); no claim is made"

ALL = ["C%02d" % i for i in range(1, 21)]


def main():
    checks, na = [], []
    for pid in ALL:
        c = CHECKS.get(pid)
        if not c or not c[0]:
            na.append({"property_id": pid, "reason": NOT_BUILT_REASON})
            continue
        _, cat, tech, text, ref, note = c
        checks.append({
            "property_id": pid,
            "quick_cmd": f"./run.sh check {pid} quick",
            "thorough_cmd": f"./run.sh check {pid} thorough",
            "evidence_file": f"/verif/evidence/{pid}.json",
            "replay_cmd_template": "./run.sh replay {path}",
            "engine": "cctpmc",
            "level_claimed": {"category": cat, "text": text, "design_ref": "DESIGN.md section " + ref},
            "level_note": TRUST + (" " + note if note else ""),
            "technique": tech,
        })
    m = {
        "version": 1,
        "setup_cmd": "./setup.sh",
        "hooks": {
            "guard": "verif",
            "enable": "go build -tags verif (done by /verif/build.sh for every check)",
            "baseline_off_cmd": "cd /repo && GOFLAGS= GOPROXY=off GOSUMDB=off GOTOOLCHAIN=local go test -json -vet=off -count=1 ./...",
            "source_commits": json.load(open(os.path.join(V, "hooks.json")))["source_commits"] if os.path.exists(os.path.join(V, "hooks.json")) else [],
            "add_only": True,
        },
        "engines": [{
            "name": "cctpmc", "path": "/verif/mc",
            "serves_properties": [c["property_id"] for c in checks],
            "kind_free_text": "hand-written explicit-state explorer (BFS / product enumeration / schedule DFS) driving the real handlers on real bank+fiattokenfactory keepers",
        }],
        "checks": checks,
        "not_applicable": na,
        "notes": "All checks rebuild the harness against /repo's working tree via build.sh. Exit 0 held / 1 VIOLATION / 2 harness or build error.",
    }
    json.dump(m, open(os.path.join(V, "MANIFEST.json"), "w"), indent=1)
    print("checks:", len(checks), "not_applicable:", len(na))


if __name__ == "__main__":
    main()
