#!/usr/bin/env python3
"""Generates MANIFEST.json from the table below (one place to keep it consistent)."""
import json, os

V = os.path.dirname(os.path.abspath(__file__))

TRUST = ("Apply mirrors baseapp's per-message branch/commit; cosmos-sdk store/IAVL, x/auth, x/bank, "
         "noble-fiattokenfactory and go-ethereum crypto behave as pinned; the reference model/codec are correct "
         "readings of the property text; bounded universes as stated in DESIGN.md section 5.")

# id -> (built?, category, technique, text, design_ref, extra note)
CHECKS = {
 "C13": (True, "model_checking", "explicit-state BFS to closure over the real handlers, from every valid start state",
         "Every state reachable by enable/disable/update-threshold sequences over a 3-key (quick) / 4-key (thorough) universe with extra "
         "spellings, from every start state with 1<=t<=|E|, is visited; the invariant and agreement with a reference model are checked in "
         "every state, a three-valued step oracle on every transition.", "5 C13", ""),
}

NOT_BUILT_REASON = "check not built yet in this round (design in DESIGN.md section 5); no claim is made"

ALL = ["C%02d" % i for i in range(1, 21)]


def main():
    checks, na = [], []
    for pid in ALL:
        c = CHECKS.get(pid)
        if not c or not c[0]:
            na.append({"property_id": pid, "reason": NOT_BUILT_REASON})
            continue
        _, cat, tech, text, ref, note = c
        checks.append({
            "property_id": pid,
            "quick_cmd": f"./run.sh check {pid} quick",
            "thorough_cmd": f"./run.sh check {pid} thorough",
            "evidence_file": f"/verif/evidence/{pid}.json",
            "replay_cmd_template": "./run.sh replay {path}",
            "engine": "cctpmc",
            "level_claimed": {"category": cat, "text": text, "design_ref": "DESIGN.md section " + ref},
            "level_note": TRUST + (" " + note if note else ""),
            "technique": tech,
        })
    m = {
        "version": 1,
        "setup_cmd": "./setup.sh",
        "hooks": {
            "guard": "verif",
            "enable": "go build -tags verif (done by /verif/build.sh for every check)",
            "baseline_off_cmd": "cd /repo && GOFLAGS= GOPROXY=off GOSUMDB=off GOTOOLCHAIN=local go test -json -vet=off -count=1 ./...",
            "source_commits": json.load(open(os.path.join(V, "hooks.json")))["source_commits"] if os.path.exists(os.path.join(V, "hooks.json")) else [],
            "add_only": True,
        },
        "engines": [{
            "name": "cctpmc", "path": "/verif/mc",
            "serves_properties": [c["property_id"] for c in checks],
            "kind_free_text": "hand-written explicit-state explorer (BFS / product enumeration / schedule DFS) driving the real handlers on real bank+fiattokenfactory keepers",
        }],
        "checks": checks,
        "not_applicable": na,
        "notes": "All checks rebuild the harness against /repo's working tree via build.sh. Exit 0 held / 1 VIOLATION / 2 harness or build error.",
    }
    json.dump(m, open(os.path.join(V, "MANIFEST.json"), "w"), indent=1)
    print("checks:", len(checks), "not_applicable:", len(na))


if __name__ == "__main__":
    main()
