#!/usr/bin/env python3
"""Re-runs the checks that matter for every kept seeded change (its own property's
check, every check that caught it before, every check of its first-contact record)
against the current machinery and rewrites detected_by / fingerprints in meta.json.
usage: seed_refresh.py <shard> <shards> [--dest DIR] [--only SUBSTRING]   (confirmation steps are not repeated)"""
import glob, json, os, subprocess, sys

V = os.path.dirname(os.path.abspath(__file__))


def main():
    shard, shards = int(sys.argv[1]), int(sys.argv[2])
    dest = sys.argv[sys.argv.index("--dest") + 1] if "--dest" in sys.argv else os.path.join(V, "seeded")
    first = {}
    for f in glob.glob(os.path.join(V, "seeded", "ROUND*_FIRST_CONTACT.json")):
        first.update(json.load(open(f))["results"])
    head = subprocess.run(["git", "-C", V, "rev-parse", "--short", "HEAD"], capture_output=True, text=True).stdout.strip()
    only = sys.argv[sys.argv.index("--only") + 1] if "--only" in sys.argv else ""
    metas = sorted(f for f in glob.glob(os.path.join(V, "seeded", "C*", "meta.json")) if only in os.path.basename(os.path.dirname(f)))
    for i, f in enumerate(metas):
        if i % shards != shard:
            continue
        m = json.load(open(f))
        ids = {m["breaks_property"]} | set(m.get("detected_by") or []) | set((first.get(m["id"]) or {}).get("detected_by") or [])
        p = subprocess.run([sys.executable, os.path.join(V, "seedtest.py"), os.path.dirname(f), "--no-confirm", "--checks", ",".join(sorted(ids))], capture_output=True, text=True)
        try:
            res = json.loads(p.stdout)
        except Exception:
            print(m["id"], "ERROR", (p.stdout + p.stderr)[-400:], flush=True)
            continue
        if "checks" not in res:
            print(m["id"], "ERROR", json.dumps(res)[-400:], flush=True)
            continue
        m["detected_by"] = res["detected_by"]
        m["fingerprints"] = {k: v["fingerprints"] for k, v in res["checks"].items() if v["exit"] == 1}
        m["harness_errors"] = {k: v.get("log") for k, v in res["checks"].items() if v["exit"] == 2}
        m["checks_rerun_at_verif_commit"] = head
        m["checks_rerun"] = sorted(ids)
        out = os.path.join(dest, m["id"], "meta.json")
        os.makedirs(os.path.dirname(out), exist_ok=True)
        json.dump(m, open(out, "w"), indent=1)
        print(m["id"], m["detected_by"], "own" if m["breaks_property"] in m["detected_by"] else "NOT-OWN", list(m["harness_errors"]), flush=True)


if __name__ == "__main__":
    main()
