#!/bin/bash
# Run once after a fresh restore, offline: builds the harness from files on disk.
cd "$(dirname "$0")" || exit 2
export GOFLAGS=-mod=mod GOPROXY=off GOSUMDB=off GOTOOLCHAIN=local
mkdir -p bin evidence replays
VERIF_RACE=1 ./build.sh || exit 2
echo "setup ok"
